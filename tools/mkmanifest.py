#!/usr/bin/env python3
"""Regenerates /verif/MANIFEST.json from the table below (keeps it valid at all times)."""
import json, os
V = os.path.dirname(os.path.dirname(os.path.abspath(__file__)))
props = [json.loads(l) for l in open(os.path.join(V, "properties.jsonl"))]
TB = ("clang-14 -O1 front end + one-header libstdc++ shim + irdump + symx interpreter (cross-checked on every run against the g++ -O2 build "
      "of the same wrappers), literal snapping, trig/sqrt/atan2 axioms, z3 4.x/5.x; layer R = exact real arithmetic (rounding outside the claim)")
CLAIMED = {
 "C01": dict(
   text="Bounded symbolic check (layer R): the real Impl::{matrix,composition,inverse,setIdentity} and action operators, compiled from /repo to LLVM IR, are "
        "executed symbolically on every path; z3 decides for ALL coefficient values (unit-norm constraints only) that the documented matrix of the result "
        "equals the matrix product / inverse / identity / action. Configurations (groups, Bundle shapes) are enumerated.",
   note=TB + "; groups SO2,SO3,SE2,SE3,C1,Galilei,SE_K_3<1..3>, Bundles (2 quick / 8 thorough); float instantiation thorough only; accumulated rounding of "
        "polynomial kernels not claimed.",
   ref="DESIGN 4/C01", technique="symbolic execution of LLVM IR + SMT (z3 QF_NRA identity obligations)"),
 "C02": dict(
   text="Bounded symbolic check (layer R): the real exp/log of every group are executed symbolically on each path. Closed-form paths: z3 decides "
        "docM(exp a) == expm(hat a) as an identity against the Hermite-interpolation oracle (spectrum obligation X^3(X^2+th^2)=0 discharged per group). "
        "Series (small-angle) paths: the same residual with Lagrange-remainder enclosures of sin/cos, bounded on the box implied by the path condition by an "
        "LRA relaxation. Round trips log(exp a)=a (|w|<pi) and exp(log g)=g, |log g|<=pi are decided by running the real log on the symbolic output of the real exp "
        "and vice versa.",
   note=TB + "; rotation boxes from the path condition, translations <= 1e3; round trips in quick tier for SO2,SO3,SE2,C1,SE3 (others thorough); obligations exceeding "
        "the per-obligation time budget are reported undecided, never as success; floating-point cancellation next to the switch (layer E) not claimed. Quick additionally decides log(exp(a)) = a for SE_K_3<3>; round trips are decided RELATIVE to the rotation norm on series paths and replayed natively relative to |a|.",
   ref="DESIGN 4/C02", technique="symbolic execution of LLVM IR + SMT (z3 NRA identities, LRA-relaxed bounds with Taylor enclosures)"),
 "C03": dict(
   text="Bounded symbolic check (layer R): hat, vee, Ad, ad, lie_bracket of every group and Bundle shape executed symbolically; z3 decides for all elements / tangents "
        "vee(hat a)=a, hat(Ad_g a) M(g) = M(g) hat(a), hat(ad_a b) = [hat a, hat b], hat(bracket(a,b)) = [hat a, hat b].",
   note=TB + "; Ad(g1 g2)=Ad(g1)Ad(g2), antisymmetry, Jacobi are corollaries by matrix algebra; Ad(exp a)=expm(ad a) is covered through C02/C04 oracles.",
   ref="DESIGN 4/C03", technique="symbolic execution of LLVM IR + SMT (polynomial identity obligations)"),
 "C04": dict(
   text="Bounded symbolic check (layer R): dr_exp, dl_exp, dr_expinv, dl_expinv, dr_action executed symbolically on every path and decided against the DEFINITION "
        "of the right/left Jacobian applied to the C02 oracle: column k = vee(E(-a) dE/da_k) (symbolic differentiation of the Hermite matrix exponential); inverses "
        "through oracle_J * impl = I. Identity on closed-form paths, enclosure bounds (tol 1e-7) on series paths.",
   note=TB + "; quick: SO2,SO3,SE2,C1,SE3; thorough adds Galilei, SE_K_3, Bundles; rotation norm < pi-1e-3 for inverses; some SE3 inverse coupling-block obligations exceed "
        "the quick budget and are reported undecided.",
   ref="DESIGN 4/C04", technique="symbolic execution of LLVM IR + symbolic differentiation oracle + SMT"),
 "C05": dict(
   text="Bounded symbolic check (layer R): d2r_exp/d2l_exp decided entry-wise against d/da_k of the C04 oracle; d2r_expinv/d2l_expinv and d2r_rminus through "
        "J D_k J = -dJ/da_k; *_squarednorm structurally; d_matrix_product and d2_fog on fully symbolic matrices against the product/chain rule in index form.",
   note=TB + "; quick: SO2,SO3,SE2,C1 (+SE3 d2r_exp); thorough adds SE3 and a Bundle; helper sizes listed in evidence; tol 1e-5 on series paths; a SUPPLEMENTARY native replay of SO3/SE2/SE3 Hessians on a fixed grid of rotation norms around every series switch against an 80-digit reference reports floating-point cancellation (it found the defects repaired in 59e71d7 and 9758caf) but never discharges an obligation.",
   ref="DESIGN 4/C05", technique="symbolic execution of LLVM IR + symbolic differentiation oracle + SMT"),
 "C06": dict(
   text="Bounded symbolic check: every Bundle operation (15 ops incl. Jacobians and Hessians) is executed symbolically and compared, entry by entry, with the same "
        "library operation executed symbolically on each part alone (path conditions matched by the solver); entries outside the diagonal blocks must be the constant 0. "
        "Eigen vectors (static/dynamic) and double through the free-function interface are decided to be the additive group.",
   note=TB + "; shapes enumerated (4 quick / 10 thorough, incl. nested, repeated, all-commutative); correctness of the parts themselves is C01-C05.",
   ref="DESIGN 4/C06", technique="symbolic execution of LLVM IR + SMT (term identity, structural)"),
 "C07": dict(
   text="Bounded symbolic check: manifold axioms rminus(rplus(m,a),m)=a, rplus(m,rminus(m2,m))=m2, rminus(m,m)=0 decided by executing the real "
        "rplus/rminus chains on canonical symbolic elements (unit quaternion as (v, sqrt(1-|v|^2)), unit complex as (sin phi, cos phi)); std::vector (sizes 0..3), "
        "std::variant (each alternative), AnyManifold and SubManifold (all 8 fixed-dimension subsets of SO3/SE2/Vector3d) compared entry-wise with the element "
        "operation; cast<double> and copies decided field-wise (term identity), origin kept, only free directions move.",
   note=TB + "; quick axioms on SO2,SO3,SE2,C1,Vector3d (SE3, Galilei thorough); series-path axiom obligations beyond the enclosure machinery are reported undecided; "
        "AnyManifold Default/cast (documented to throw) outside. Also std::vector<VectorXd> with element sizes (3,1,2) and AnyManifold around run-time-dof values (VectorXd(3), std::vector<SO3>(2)).",
   ref="DESIGN 4/C07", technique="symbolic execution of LLVM IR (incl. heap containers, virtual dispatch) + SMT"),
 "C16": dict(
   text="Structural bounded check: every operation through Map<G>/Map<const G> over a caller buffer with guard scalars (view at scalar offsets 3 and 1) is executed "
        "symbolically; the interpreter's exact per-path write set must lie inside the viewed range (sub-part views: their sub-range), const views are never written, "
        "Map results are the same term DAG as value results (bit-identical), copies are verbatim, cast<float> is one fptrunc per coefficient in order.",
   note=TB + "; groups SO2,SO3,SE2,SE3,C1,Galilei,SE_K_3<2> and Bundle<SO3,V3,SE2> parts; write sets exact because pointers are concrete; no concurrency. Assignment between two views of one buffer shifted by one scalar and by two scalars is decided in both directions, and for group-typed sub-part views assigned from a view of the same buffer one scalar further on; the destination-after-source direction failed on the pinned tree (Eigen aliasing in LieGroupBase::operator=), was first a known finding and is repaired by /repo 3a492bf (fixed entry; no open known finding).",
   ref="DESIGN 4/C16", technique="symbolic execution of LLVM IR with exact write-set tracking (footprints) + SMT for residual equalities"),
 "C19": dict(
   text="Bounded symbolic check: ad_sparse, dr_exp(inv)_sparse, d2r_exp(inv)_sparse are executed symbolically (Eigen::SparseMatrix internals run concretely, values symbolic) "
        "into a host matrix = published pattern at block offset i0 plus sentinel entries; block entries must equal the dense routine's terms for all tangents (which also "
        "decides pattern completeness: dense entries outside the pattern are identically zero), sentinels survive, index arrays / nonZeros / compression unchanged.",
   note=TB + "; groups SO2,SO3,SE2,SE3,C1,Bundle<SO3,V3>,Bundle<SE2,Bundle<SO2,V1>>; offsets {0,1} quick, {0,1,4} thorough; dense routines are C04/C05.",
   ref="DESIGN 4/C19", technique="symbolic execution of LLVM IR (sparse containers concrete, values symbolic) + SMT"),
 "C18": dict(
   text="Footprint check replacing schedules: shared const objects (group elements, SubManifold, AnyManifold, std::vector<SO3>, Spline<3,SE2>, BSpline<3,SO3>, sparse patterns) "
        "are built once, then every const operation is executed symbolically (evaluation time symbolic over the whole real line); the exact store set of every path must not "
        "touch any object that existed before the call except the thread-private output and guard-protected once-only initialisation. Disjoint write sets + read-only shared "
        "data => every interleaving of any number of threads is race free and yields sequential results.",
   note=TB + "; __cxa_guard runtime and hardware memory model trusted; diff::dr/minimize/fit on private data are covered by their own checks' write sets, not here. The sparse operation covers dr_exp, ad, d2r_exp, d2r_expinv (dense fall-back) and dr_expinv _sparse into thread-private outputs.",
   ref="DESIGN 4/C18", technique="symbolic execution of LLVM IR with exact write-set tracking (footprint non-interference)"),
 "C20": dict(
   text="Bounded symbolic / exact check: basis coefficient matrices (compile-time constants read from the IR run) K<=6 quick / <=10 thorough decided by z3 against the definitions "
        "(Bernstein polynomials, Cox-de Boor, three-term recurrences from P0,P1; non-negativity on [0,1] as one-variable NRA, partition of unity, cumulative = tail sums); "
        "monomial_derivative(s) and lagrange_basis on symbolic arguments (identity obligations); monomial_integral and lgr_nodes moments by ground rational arithmetic; "
        "binary_interval_search on EVERY sorted real range of length <=4 (<=6 thorough) and every query: each explored path's result index must be entailed by the documented "
        "cases; integrate_absolute_polynomial on every path against a sign-pattern certificate of the true integral (z3 NRA, counterexamples replayed natively).",
   note=TB + "; constants snapped to the simplest rational within half an ulp; integrate_absolute_polynomial box [t0,t1] in [0,1], |A|,|B|,|C|<=1e3 and NRA queries that time out "
        "are reported undecided; bit-precise CBMC lane for the search not built (layer R only). monomial_integral for every K<=10 and order 0..K+1 in both tiers; integrate_absolute_polynomial paths left unknown by z3 are searched over stratified root configurations and replayed natively.",
   ref="DESIGN 4/C20", technique="symbolic execution of LLVM IR + SMT (z3 NRA/LRA), exact rational definitions"),
 "C11": dict(
   text="Bounded symbolic check: cspline_eval_vs/gs and the Jacobians cspline_eval_dg_dvs/dgs executed symbolically (u and all control data symbolic) and decided against "
        "the definition: value = prod_j expm(Btilde_j(u) hat v_j) with the cumulative basis from its DEFINITION (tail sums of Bernstein / Cox-de Boor polynomials), "
        "vel/acc/jer = successive u-derivatives by symbolic differentiation of that curve, Jacobians = derivatives with respect to each input direction.",
   note=TB + "; Vector2d K=1..6 (both bases), double K in {1,3,5}, SO3 K=1, SE2 K=1,2 quick (SO3 K=2 thorough); the Lie-group Jacobians (dvs/dgs) are decided with u fixed to 1/3 and all control data symbolic in quick (u in {1/3, 3/4} and symbolic u in thorough); control-point form on non-commutative groups only through "
        "differential validation; small-angle paths of the group cases may be undecided.",
   ref="DESIGN 4/C11", technique="symbolic execution of LLVM IR + symbolic differentiation oracle + SMT"),
 "C12": dict(
   text="Bounded symbolic check with an inductive step: Spline<3,double|Vector2d> states are built through a guarded friend hook as ARBITRARY representation-invariant states "
        "(all times, crop parameters and control velocities symbolic); operator() is decided per region (before / each segment / after) against the definition; crop(ta,tb,"
        "localize) against the real evaluation of the uncropped spline at ta+s; ConstantVelocity for K=1..5, FixedCubic end conditions, concat_local/global; candidates are "
        "replayed natively.",
   note=TB + "; N<=3 segments (crop N<=2 quick); vector-space groups only; arclength not encoded; obligations on paths the solver can neither refute nor prove are undecided. FixedCubic also on SE2 (non-commutative) with two stated rotation pairs, T=2 and symbolic translations / translational velocities.",
   ref="DESIGN 4/C12", technique="symbolic execution of LLVM IR from arbitrary invariant states (inductive step) + SMT"),
 "C13": dict(
   text="Bounded symbolic check: BSpline<K,double|Vector2d>::operator() with symbolic t0, dt>0, control points and evaluation time (interval index obtained by forking the "
        "float-to-int truncation over all admissible integers); on every knot interval value/vel/acc must equal the uniform B-spline from the Cox-de Boor recursion, end values "
        "outside the range, t_min/t_max formulas.",
   note=TB + "; K=1..3 quick, ..6 thorough; N=K+1..K+3 control points; vector-space groups; rounding of the compile-time basis constants is absorbed by a tolerance box.",
   ref="DESIGN 4/C13", technique="symbolic execution of LLVM IR (fptosi forked by solver enumeration) + SMT"),
 "C15": dict(
   text="Inductive-step check instead of histories: for every state-producing operation (compose, inverse, exp, rplus) and group, symbolic execution from an ARBITRARY pre-state on "
        "the constraint manifold with canonical sign; z3 decides on every return path that the unit-norm constraint is preserved exactly (closed-form paths) or within 1e-14 "
        "(series paths), that q_w >= 0, and that every symbolic divisor is non-zero. boost::odeint adaptor: scale_sum (arities 2..7) equals x (+) sum alpha_i a_i and one step of "
        "euler / rk4 / cash-karp54 / dopri5 with constant body velocity equals x (+) h v, term by term against the real rplus.",
   note=TB + "; the (n+1)*1e-14 floating-point drift of 1e5-step chains is a sampling statement outside the claim; exactness of each operation is C01/C02; adaptive steppers outside.",
   ref="DESIGN 4/C15", technique="symbolic execution of LLVM IR (one inductive step from an arbitrary valid state) + SMT"),
 "C17": dict(
   text="Bounded symbolic check: SE_K_3<1> against SE3 and SE_K_3<2> against Galilei(tau=s=0) operation by operation (both implementations executed symbolically, outputs equal "
        "on consistent paths); SO2 angle()/angle_cw()/angle_ccw() ranges and congruence modulo 2pi by z3 over atan2 quadrant axioms (every unit complex number incl. the branch "
        "cuts); lift/project, C1 = scaling*so2, rot_x/y/z = exp, normalising quaternion/complex constructors (unit, parallel, canonical hemisphere), isometry and "
        "quaternion<->matrix round trips through Eigen's real conversion code.",
   note=TB + "; Euler-angle round trip only differentially validated; series-path differences between two correct Taylor truncations are reported undecided unless reproduced natively.",
   ref="DESIGN 4/C17", technique="symbolic execution of LLVM IR + SMT (atan2 axioms, identity obligations), native replay"),
 "C08": dict(
   text="Bounded symbolic check: diff::dr<0|1|2> executed symbolically on callable FAMILIES with symbolic coefficients (affine R^2 x R x R^n(dynamic) -> R^2; scalar- and vector-valued (ny != nx) quadratics with "
        "K=2; SO3 x R^3 action) and on a callable whose value/jacobian are uninterpreted functions; z3 decides J == [A b C] exactly (forward differences are exact on affine "
        "maps, which pins column placement and static/dynamic bookkeeping), the Hessian layout on quadratics exactly, index-subset columns, K=0, Analytic/Default pass-through "
        "verbatim, restoration of every referenced argument, and the SO3 case within 1e-4 by an LRA relaxation.",
   note=TB + "; vector coordinates symbolic inside one unit interval per run (the step scaling uses the integer abs(), see DESIGN findings); zero coordinates and mixed signs by "
        "differential validation; bit-precise restore kernel not encoded.",
   ref="DESIGN 4/C08", technique="symbolic execution of LLVM IR + SMT (identity / LRA-relaxed bounds), uninterpreted functions"),
 "C09": dict(
   text="Bounded symbolic check with the residual and its Jacobian as UNINTERPRETED functions (so every residual function is covered): the real minimize<Analytic> loop is executed "
        "symbolically for max_iter in {0,1} (2 thorough), both trust-region strategies; on every path z3 decides that the costs handed to the callback are non-increasing, the "
        "argument finally holds the last iterate, iter <= max_iter, MaxIters is reported only at the bound and callbacks <= iter+1.  Where monotonicity is not entailed, z3's model of "
        "PC & cost increases is realised by a concrete quadratic residual through the model's values and replayed on the natively built minimize (a reproduced increase is the violation).",
   note=TB + "; scalar residual with one unknown; convergence to the minimiser within 1e-3 and multi-dimensional residuals are not claimed; rounding of f outside.",
   ref="DESIGN 4/C09", technique="symbolic execution of LLVM IR with uninterpreted residual (congruence axioms) + SMT"),
 "C10": dict(
   text="Bounded symbolic check: solve_linear_ldlt (static, dynamic and SparseMatrix/SimplicialLDLT storage), solve_trust_region and colwise_norm executed symbolically with "
        "fully symbolic J, d, r, lambda (every LDLT pivot order is a path); z3 decides the normal equations (J^T J + lambda D^2) dx + J^T r = 0, the descent certificate "
        "|r|^2-|J dx+r|^2 = |J dx|^2 + 2 lambda |D dx|^2 (hence |J dx + r| <= |r|), dphi through the symbolic lambda-derivative of the path's own dx, lambda = 1/Delta.",
   note=TB + "; sizes 2x1 (all storages), 3x1 sparse quick; 2x2 (all storages), 4x1 thorough (3x2 and larger exceed 15 min per configuration with symbolic pivoting: outside); d >= 1e-6, lambda/Delta in [1e-6,1e6]; the 1e-8 backward error, cond<=1e8 agreement and sizes "
        "up to 40x40 are floating-point statements outside the claim. Row-major sparse J in a wide (1x2) and a tall (2x1) shape added after seed C10d.",
   ref="DESIGN 4/C10", technique="symbolic execution of LLVM IR (Eigen LDLT incl. pivoting) + SMT"),
 "C14": dict(
   text="PARTIAL bounded symbolic check: the real fit_spline_1d (sparse assembly + Eigen::SparseLU for PiecewiseLinear / FixedDerCubic<1|2>, SparseLU on the full KKT system for "
        "MinDerivative<5,3,3> and <6,3,3>) is executed symbolically with symbolic increments dx_i and sampling intervals dt_i that are symbolic in [1e-2,1e2] (any ratio) for the interpolating specs and fixed to stated rationals for MinDerivative (the KKT factorisation with symbolic dt swells past 60 GB); every pivot decision is a path; z3 decides "
        "on each path that the returned Bernstein coefficients satisfy every interpolation, derivative-continuity and boundary equation written from the specification, and for MinDerivative that every coefficient is within 1e-4 |dx| of the exact rational minimiser of the documented cost.",
   note=TB + "; N<=3 segments for PiecewiseLinear, N<=2 for FixedDerCubic (N=3 with symbolic dt is attempted in thorough and runs out of its 30 min job budget: listed undecided); MinDerivative: N=1 with dt in {1, 1/2, 3} quick, N=2 with dt in {(1,1),(1/2,2),(3,1/3)} thorough; a SUPPLEMENTARY native scan (250 fits, sampling 1e-2..1e2, the property's interval ratios) evaluates every constraint in backward-error form at 1e-6 and found the KKT defect repaired in 01db3e5; NOT encoded: fit_spline on groups, fit_bspline, dubins_curve, reparameterize_spline; floating-point "
        "conditioning is visible to the native scan only, not to the exact-arithmetic layer. fit_spline on SO3/SE2 is covered by a SUPPLEMENTARY native scan only (40 fits: value, one-sided limits, velocity continuity, rest at the ends).",
   ref="DESIGN 13.6", technique="symbolic execution of LLVM IR (sparse LU/LDLT, every pivot order a path) + SMT"),
}
NA = {}
checks = []
for p in props:
    pid = p["id"]
    if pid in CLAIMED:
        c = CLAIMED[pid]
        checks.append({
            "property_id": pid,
            "quick_cmd": "./run %s --tier quick" % pid,
            "thorough_cmd": "./run %s --tier thorough" % pid,
            "evidence_file": "/verif/evidence/%s.json" % pid,
            "replay_cmd_template": "./run %s --replay {path}" % pid,
            "engine": "symx",
            "level_claimed": {"category": "model_checking", "text": c["text"], "design_ref": c["ref"]},
            "level_note": c["note"],
            "technique": c["technique"],
        })
na = [{"property_id": p["id"], "reason": NA.get(p["id"], "check not built yet in this round (planned: DESIGN section 4/%s); will be claimed once its symx obligations exist" % p["id"])}
      for p in props if p["id"] not in CLAIMED]
m = {
 "version": 1,
 "setup_cmd": "./setup.sh",
 "hooks": {"guard": "PETTNI_SMOOTH_VERIF", "enable": "harness TUs are compiled with -DPETTNI_SMOOTH_VERIF (clang-14 for IR, g++ for the native twin)",
           "baseline_off_cmd": "./baseline_off.sh", "source_commits": ["f7f7557"], "add_only": True},
 "engines": [{"name": "symx", "path": "/verif/symx", "serves_properties": sorted(CLAIMED),
              "kind_free_text": "symbolic interpreter for LLVM IR of the real templates (concrete control/pointers, symbolic reals) + z3 obligations + native replay"}],
 "checks": checks,
 "not_applicable": na,
 "notes": "All checks regenerate harness TUs and LLVM IR from /repo's working tree on every run (content-hash cache under /verif/build/cache).",
}
json.dump(m, open(os.path.join(V, "MANIFEST.json"), "w"), indent=1)
print("MANIFEST: %d claimed, %d not claimed" % (len(checks), len(na)))
