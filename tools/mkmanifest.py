#!/usr/bin/env python3
"""Regenerates /verif/MANIFEST.json from the table below (keeps it valid at all times)."""
import json, os
V = os.path.dirname(os.path.dirname(os.path.abspath(__file__)))
props = [json.loads(l) for l in open(os.path.join(V, "properties.jsonl"))]
TB = ("clang-14 -O1 front end + one-header libstdc++ shim + irdump + symx interpreter (cross-checked on every run against the g++ -O2 build "
      "of the same wrappers), literal snapping, trig/sqrt/atan2 axioms, z3 4.x/5.x; layer R = exact real arithmetic (rounding outside the claim)")
CLAIMED = {
 "C01": dict(
   text="Bounded symbolic check (layer R): the real Impl::{matrix,composition,inverse,setIdentity} and action operators, compiled from /repo to LLVM IR, are "
        "executed symbolically on every path; z3 decides for ALL coefficient values (unit-norm constraints only) that the documented matrix of the result "
        "equals the matrix product / inverse / identity / action. Configurations (groups, Bundle shapes) are enumerated.",
   note=TB + "; groups SO2,SO3,SE2,SE3,C1,Galilei,SE_K_3<1..3>, Bundles (2 quick / 8 thorough); float instantiation thorough only; accumulated rounding of "
        "polynomial kernels not claimed.",
   ref="DESIGN 4/C01", technique="symbolic execution of LLVM IR + SMT (z3 QF_NRA identity obligations)"),
}
NA = {}
checks = []
for p in props:
    pid = p["id"]
    if pid in CLAIMED:
        c = CLAIMED[pid]
        checks.append({
            "property_id": pid,
            "quick_cmd": "./run %s --tier quick" % pid,
            "thorough_cmd": "./run %s --tier thorough" % pid,
            "evidence_file": "/verif/evidence/%s.json" % pid,
            "replay_cmd_template": "./run %s --replay {path}" % pid,
            "engine": "symx",
            "level_claimed": {"category": "model_checking", "text": c["text"], "design_ref": c["ref"]},
            "level_note": c["note"],
            "technique": c["technique"],
        })
na = [{"property_id": p["id"], "reason": NA.get(p["id"], "check not built yet in this round (planned: DESIGN section 4/%s); will be claimed once its symx obligations exist" % p["id"])}
      for p in props if p["id"] not in CLAIMED]
m = {
 "version": 1,
 "setup_cmd": "./setup.sh",
 "hooks": {"guard": "PETTNI_SMOOTH_VERIF", "enable": "harness TUs are compiled with -DPETTNI_SMOOTH_VERIF (clang-14 for IR, g++ for the native twin)",
           "baseline_off_cmd": "./baseline_off.sh", "source_commits": [], "add_only": True},
 "engines": [{"name": "symx", "path": "/verif/symx", "serves_properties": sorted(CLAIMED),
              "kind_free_text": "symbolic interpreter for LLVM IR of the real templates (concrete control/pointers, symbolic reals) + z3 obligations + native replay"}],
 "checks": checks,
 "not_applicable": na,
 "notes": "All checks regenerate harness TUs and LLVM IR from /repo's working tree on every run (content-hash cache under /verif/build/cache).",
}
json.dump(m, open(os.path.join(V, "MANIFEST.json"), "w"), indent=1)
print("MANIFEST: %d claimed, %d not claimed" % (len(checks), len(na)))
