"""developer helper: profile one job   python3-vt tools/prof.py c02 job_exp SE2"""
import sys, time, cProfile, pstats, importlib, signal
sys.path.insert(0, '/verif')
from symx import groups as G

mod = importlib.import_module("checks." + sys.argv[1])
fn = getattr(mod, sys.argv[2])
g = G.BASIC.get(sys.argv[3])
signal.alarm(int(sys.argv[4]) if len(sys.argv) > 4 else 100)
pr = cProfile.Profile()
pr.enable()
try:
    r = fn(g, "quick")
    print(len(r.obls), [o for o in r.obls if o[1] != 'holds'][:5], r.errors[:2])
except BaseException as e:
    print("EXC", repr(e))
pr.disable()
pstats.Stats(pr).sort_stats('cumulative').print_stats(18)
