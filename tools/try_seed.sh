#!/bin/bash
# apply a seeded change to /repo, run the quick check(s) of the given properties, undo the change
ID=$1; shift
P=${SEEDDIR:-/tmp/seed_$ID}/patch.diff
cd /verif
git -C /repo apply $P || { echo "patch does not apply"; exit 3; }
for C in "$@"; do
  timeout 2400 ./run $C > /tmp/try_${ID}_$C.out 2>&1
  echo "TRY seed=$ID check=$C exit=$? : $(grep -c '^VIOLATION' /tmp/try_${ID}_$C.out) violations; $(grep "^$C quick" /tmp/try_${ID}_$C.out | cut -c1-200)"
done
git -C /repo checkout -- .
