// irdump: LLVM-14 IR (.ll/.bc) -> JSON for symx (DESIGN 2.1).  No hand-written IR text parser.
#include <llvm/IR/Constants.h>
#include <llvm/IR/DataLayout.h>
#include <llvm/IR/GetElementPtrTypeIterator.h>
#include <llvm/IR/InstrTypes.h>
#include <llvm/IR/Instructions.h>
#include <llvm/IR/IntrinsicInst.h>
#include <llvm/IR/LLVMContext.h>
#include <llvm/IR/Module.h>
#include <llvm/IR/Operator.h>
#include <llvm/IRReader/IRReader.h>
#include <llvm/Support/SourceMgr.h>
#include <llvm/Support/raw_ostream.h>

#include <cstdio>
#include <map>
#include <sstream>
#include <string>
#include <vector>

using namespace llvm;

static const DataLayout * DL;
static std::map<Type *, int> tyids;
static std::vector<std::string> tydescs;

static std::string esc(StringRef s)
{
  std::string o = "\"";
  for (unsigned char c : s) {
    if (c == '"' || c == '\\') {
      o += '\\';
      o += c;
    } else if (c < 32 || c > 126) {
      char b[8];
      snprintf(b, 8, "\\u%04x", c);
      o += b;
    } else
      o += c;
  }
  return o + "\"";
}

static int tyid(Type * t)
{
  auto it = tyids.find(t);
  if (it != tyids.end()) return it->second;
  int id   = tydescs.size();
  tyids[t] = id;
  tydescs.emplace_back();
  std::ostringstream o;
  if (t->isVoidTy())
    o << "{\"k\":\"void\"}";
  else if (t->isIntegerTy())
    o << "{\"k\":\"int\",\"bits\":" << t->getIntegerBitWidth() << ",\"size\":" << DL->getTypeStoreSize(t).getFixedSize() << "}";
  else if (t->isFloatTy())
    o << "{\"k\":\"fp\",\"bits\":32,\"size\":4}";
  else if (t->isDoubleTy())
    o << "{\"k\":\"fp\",\"bits\":64,\"size\":8}";
  else if (t->isX86_FP80Ty())
    o << "{\"k\":\"fp\",\"bits\":80,\"size\":16}";
  else if (t->isPointerTy())
    o << "{\"k\":\"ptr\",\"size\":8}";
  else if (auto * st = dyn_cast<StructType>(t)) {
    if (st->isOpaque())
      o << "{\"k\":\"opaque\"}";
    else {
      const StructLayout * sl = DL->getStructLayout(st);
      o << "{\"k\":\"struct\",\"size\":" << DL->getTypeAllocSize(t).getFixedSize() << ",\"elems\":[";
      for (unsigned i = 0; i < st->getNumElements(); ++i) { o << (i ? "," : "") << tyid(st->getElementType(i)); }
      o << "],\"offs\":[";
      for (unsigned i = 0; i < st->getNumElements(); ++i) { o << (i ? "," : "") << sl->getElementOffset(i); }
      o << "]}";
    }
  } else if (auto * at = dyn_cast<ArrayType>(t)) {
    o << "{\"k\":\"array\",\"n\":" << at->getNumElements() << ",\"elem\":" << tyid(at->getElementType())
      << ",\"esize\":" << DL->getTypeAllocSize(at->getElementType()).getFixedSize()
      << ",\"size\":" << DL->getTypeAllocSize(t).getFixedSize() << "}";
  } else if (auto * vt = dyn_cast<FixedVectorType>(t)) {
    o << "{\"k\":\"vec\",\"n\":" << vt->getNumElements() << ",\"elem\":" << tyid(vt->getElementType())
      << ",\"esize\":" << DL->getTypeAllocSize(vt->getElementType()).getFixedSize()
      << ",\"size\":" << DL->getTypeAllocSize(t).getFixedSize() << "}";
  } else if (t->isFunctionTy())
    o << "{\"k\":\"func\"}";
  else if (t->isLabelTy() || t->isMetadataTy() || t->isTokenTy())
    o << "{\"k\":\"other\"}";
  else {
    std::string s;
    raw_string_ostream rs(s);
    t->print(rs);
    o << "{\"k\":\"unknown\",\"str\":" << esc(rs.str()) << "}";
  }
  tydescs[id] = o.str();
  return id;
}

static std::map<const Value *, int> vids;  // per function
static std::map<const BasicBlock *, int> bids;

static std::string cst(const Constant * c);

static std::string gepdesc(const GEPOperator * g, bool isconst);

static std::string op(const Value * v)
{
  if (auto * c = dyn_cast<Constant>(v)) return cst(c);
  if (isa<MetadataAsValue>(v)) return "[\"md\"]";
  if (isa<InlineAsm>(v)) return "[\"asm\"]";
  auto it = vids.find(v);
  if (it == vids.end()) return "[\"bad\"]";
  return "[\"v\"," + std::to_string(it->second) + "]";
}

static std::string cst(const Constant * c)
{
  std::ostringstream o;
  if (auto * ci = dyn_cast<ConstantInt>(c)) {
    SmallString<40> s;
    ci->getValue().toStringUnsigned(s);
    o << "[\"ci\"," << ci->getBitWidth() << ",\"" << s.c_str() << "\"]";
  } else if (auto * cf = dyn_cast<ConstantFP>(c)) {
    APInt bits = cf->getValueAPF().bitcastToAPInt();
    SmallString<40> s;
    bits.toStringUnsigned(s);
    o << "[\"cf\"," << bits.getBitWidth() << ",\"" << s.c_str() << "\"]";
  } else if (isa<ConstantPointerNull>(c)) {
    o << "[\"null\"]";
  } else if (isa<UndefValue>(c)) {
    o << "[\"undef\"," << tyid(c->getType()) << "]";
  } else if (auto * f = dyn_cast<Function>(c)) {
    o << "[\"fn\"," << esc(f->getName()) << "]";
  } else if (auto * g = dyn_cast<GlobalVariable>(c)) {
    o << "[\"g\"," << esc(g->getName()) << "]";
  } else if (auto * ga = dyn_cast<GlobalAlias>(c)) {
    o << cst(ga->getAliasee());
  } else if (isa<ConstantAggregateZero>(c)) {
    o << "[\"zero\"," << tyid(c->getType()) << "]";
  } else if (auto * cda = dyn_cast<ConstantDataSequential>(c)) {
    o << "[\"cagg\"," << tyid(c->getType()) << ",[";
    for (unsigned i = 0; i < cda->getNumElements(); ++i) o << (i ? "," : "") << cst(cda->getElementAsConstant(i));
    o << "]]";
  } else if (isa<ConstantStruct>(c) || isa<ConstantArray>(c) || isa<ConstantVector>(c)) {
    o << "[\"cagg\"," << tyid(c->getType()) << ",[";
    for (unsigned i = 0; i < c->getNumOperands(); ++i) o << (i ? "," : "") << cst(cast<Constant>(c->getOperand(i)));
    o << "]]";
  } else if (auto * ce = dyn_cast<ConstantExpr>(c)) {
    if (auto * g = dyn_cast<GEPOperator>(ce)) {
      o << "[\"cgep\"," << gepdesc(g, true) << "]";
    } else {
      o << "[\"ce\"," << esc(ce->getOpcodeName()) << "," << tyid(ce->getType()) << ",[";
      for (unsigned i = 0; i < ce->getNumOperands(); ++i) o << (i ? "," : "") << cst(cast<Constant>(ce->getOperand(i)));
      o << "]";
      if (ce->isCompare()) o << "," << esc(CmpInst::getPredicateName((CmpInst::Predicate)ce->getPredicate()));
      o << "]";
    }
  } else if (isa<BlockAddress>(c)) {
    o << "[\"blockaddr\"]";
  } else {
    o << "[\"unkconst\"]";
  }
  return o.str();
}

static std::string gepdesc(const GEPOperator * g, bool)
{
  std::ostringstream o;
  int64_t coff = 0;
  std::ostringstream vars;
  bool first = true;
  for (gep_type_iterator gti = gep_type_begin(g), e = gep_type_end(g); gti != e; ++gti) {
    const Value * idx = gti.getOperand();
    if (StructType * st = gti.getStructTypeOrNull()) {
      unsigned f = cast<ConstantInt>(idx)->getZExtValue();
      coff += DL->getStructLayout(st)->getElementOffset(f);
    } else {
      int64_t stride = DL->getTypeAllocSize(gti.getIndexedType()).getFixedSize();
      if (auto * ci = dyn_cast<ConstantInt>(idx)) {
        coff += stride * ci->getSExtValue();
      } else {
        vars << (first ? "" : ",") << "[" << op(idx) << "," << stride << "]";
        first = false;
      }
    }
  }
  o << "{\"base\":" << op(g->getPointerOperand()) << ",\"off\":" << coff << ",\"vars\":[" << vars.str() << "]}";
  return o.str();
}

int main(int argc, char ** argv)
{
  if (argc < 2) {
    fprintf(stderr, "usage: irdump file.ll > out.json\n");
    return 2;
  }
  LLVMContext ctx;
  SMDiagnostic err;
  std::unique_ptr<Module> M = parseIRFile(argv[1], err, ctx);
  if (!M) {
    err.print("irdump", errs());
    return 1;
  }
  DL = &M->getDataLayout();
  std::ostringstream out;
  out << "{\"globals\":[";
  bool first = true;
  for (auto & g : M->globals()) {
    out << (first ? "" : ",") << "\n{\"name\":" << esc(g.getName()) << ",\"ty\":" << tyid(g.getValueType())
        << ",\"size\":" << (g.getValueType()->isSized() ? DL->getTypeAllocSize(g.getValueType()).getFixedSize() : 0)
        << ",\"const\":" << (g.isConstant() ? "true" : "false") << ",\"tls\":" << (g.isThreadLocal() ? "true" : "false")
        << ",\"init\":" << (g.hasInitializer() ? cst(g.getInitializer()) : "null") << "}";
    first = false;
  }
  out << "],\n\"functions\":[";
  first = true;
  for (auto & F : *M) {
    out << (first ? "" : ",") << "\n{\"name\":" << esc(F.getName()) << ",\"decl\":" << (F.isDeclaration() ? "true" : "false")
        << ",\"ret\":" << tyid(F.getReturnType()) << ",\"vararg\":" << (F.isVarArg() ? "true" : "false");
    first = false;
    vids.clear();
    bids.clear();
    int n = 0;
    out << ",\"args\":[";
    for (auto & a : F.args()) {
      vids[&a] = n;
      out << (n ? "," : "") << "{\"id\":" << n << ",\"ty\":" << tyid(a.getType());
      if (a.hasStructRetAttr()) out << ",\"sret\":true";
      if (a.hasByValAttr()) out << ",\"byval\":" << DL->getTypeAllocSize(a.getParamByValType()).getFixedSize();
      out << "}";
      ++n;
    }
    out << "]";
    int nb = 0;
    for (auto & B : F) {
      bids[&B] = nb++;
      for (auto & I : B) vids[&I] = n++;
    }
    out << ",\"nvals\":" << n << ",\"blocks\":[";
    bool fb = true;
    for (auto & B : F) {
      out << (fb ? "" : ",") << "\n [";
      fb      = false;
      bool fi = true;
      for (auto & I : B) {
        if (auto * ii = dyn_cast<IntrinsicInst>(&I)) {
          switch (ii->getIntrinsicID()) {
          case Intrinsic::dbg_declare:
          case Intrinsic::dbg_value:
          case Intrinsic::dbg_label:
          case Intrinsic::lifetime_start:
          case Intrinsic::lifetime_end:
          case Intrinsic::experimental_noalias_scope_decl:
          case Intrinsic::invariant_start:
          case Intrinsic::invariant_end:
          case Intrinsic::prefetch:
            continue;
          default: break;
          }
        }
        out << (fi ? "" : ",") << "\n  {\"id\":" << vids[&I] << ",\"op\":" << esc(I.getOpcodeName()) << ",\"ty\":" << tyid(I.getType());
        fi = false;
        if (auto * ai = dyn_cast<AllocaInst>(&I)) {
          out << ",\"asize\":" << DL->getTypeAllocSize(ai->getAllocatedType()).getFixedSize() << ",\"n\":" << op(ai->getArraySize())
              << ",\"align\":" << ai->getAlign().value();
        } else if (auto * li = dyn_cast<LoadInst>(&I)) {
          out << ",\"ptr\":" << op(li->getPointerOperand()) << ",\"align\":" << li->getAlign().value()
              << ",\"atomic\":" << (li->isAtomic() ? "true" : "false");
        } else if (auto * si = dyn_cast<StoreInst>(&I)) {
          out << ",\"ptr\":" << op(si->getPointerOperand()) << ",\"val\":" << op(si->getValueOperand())
              << ",\"vty\":" << tyid(si->getValueOperand()->getType()) << ",\"align\":" << si->getAlign().value();
        } else if (auto * gi = dyn_cast<GetElementPtrInst>(&I)) {
          out << ",\"gep\":" << gepdesc(cast<GEPOperator>(gi), false);
        } else if (auto * cb = dyn_cast<CallBase>(&I)) {
          out << ",\"callee\":" << op(cb->getCalledOperand()) << ",\"args\":[";
          for (unsigned i = 0; i < cb->arg_size(); ++i) out << (i ? "," : "") << op(cb->getArgOperand(i));
          out << "],\"atys\":[";
          for (unsigned i = 0; i < cb->arg_size(); ++i) out << (i ? "," : "") << tyid(cb->getArgOperand(i)->getType());
          out << "]";
          if (auto * inv = dyn_cast<InvokeInst>(&I)) out << ",\"normal\":" << bids[inv->getNormalDest()] << ",\"unwind\":" << bids[inv->getUnwindDest()];
        } else if (auto * br = dyn_cast<BranchInst>(&I)) {
          if (br->isConditional())
            out << ",\"cond\":" << op(br->getCondition()) << ",\"t\":" << bids[br->getSuccessor(0)] << ",\"f\":" << bids[br->getSuccessor(1)];
          else
            out << ",\"t\":" << bids[br->getSuccessor(0)];
        } else if (auto * sw = dyn_cast<SwitchInst>(&I)) {
          out << ",\"cond\":" << op(sw->getCondition()) << ",\"default\":" << bids[sw->getDefaultDest()] << ",\"cases\":[";
          bool fc = true;
          for (auto & c : sw->cases()) {
            out << (fc ? "" : ",") << "[" << cst(c.getCaseValue()) << "," << bids[c.getCaseSuccessor()] << "]";
            fc = false;
          }
          out << "]";
        } else if (auto * phi = dyn_cast<PHINode>(&I)) {
          out << ",\"inc\":[";
          for (unsigned i = 0; i < phi->getNumIncomingValues(); ++i)
            out << (i ? "," : "") << "[" << op(phi->getIncomingValue(i)) << "," << bids[phi->getIncomingBlock(i)] << "]";
          out << "]";
        } else if (auto * cmp = dyn_cast<CmpInst>(&I)) {
          out << ",\"pred\":" << esc(CmpInst::getPredicateName(cmp->getPredicate())) << ",\"ops\":[" << op(I.getOperand(0)) << ","
              << op(I.getOperand(1)) << "],\"oty\":" << tyid(I.getOperand(0)->getType());
        } else if (auto * ev = dyn_cast<ExtractValueInst>(&I)) {
          out << ",\"ops\":[" << op(ev->getAggregateOperand()) << "],\"idx\":[";
          for (unsigned i = 0; i < ev->getNumIndices(); ++i) out << (i ? "," : "") << ev->getIndices()[i];
          out << "],\"aty\":" << tyid(ev->getAggregateOperand()->getType());
        } else if (auto * iv = dyn_cast<InsertValueInst>(&I)) {
          out << ",\"ops\":[" << op(iv->getAggregateOperand()) << "," << op(iv->getInsertedValueOperand()) << "],\"idx\":[";
          for (unsigned i = 0; i < iv->getNumIndices(); ++i) out << (i ? "," : "") << iv->getIndices()[i];
          out << "]";
        } else if (auto * rmw = dyn_cast<AtomicRMWInst>(&I)) {
          out << ",\"rmw\":" << esc(AtomicRMWInst::getOperationName(rmw->getOperation())) << ",\"ptr\":" << op(rmw->getPointerOperand())
              << ",\"val\":" << op(rmw->getValOperand());
        } else if (auto * cx = dyn_cast<AtomicCmpXchgInst>(&I)) {
          out << ",\"ptr\":" << op(cx->getPointerOperand()) << ",\"cmp\":" << op(cx->getCompareOperand()) << ",\"new\":" << op(cx->getNewValOperand());
        } else {
          out << ",\"ops\":[";
          for (unsigned i = 0; i < I.getNumOperands(); ++i) out << (i ? "," : "") << op(I.getOperand(i));
          out << "]";
          if (isa<CastInst>(&I)) out << ",\"sty\":" << tyid(I.getOperand(0)->getType());
        }
        out << "}";
      }
      out << "]";
    }
    out << "]}";
  }
  out << "],\n\"types\":[";
  // tydescs may have grown while printing; emit all
  std::string body = out.str();
  fputs(body.c_str(), stdout);
  for (size_t i = 0; i < tydescs.size(); ++i) printf("%s\n%s", i ? "," : "", tydescs[i].c_str());
  printf("]}\n");
  return 0;
}
