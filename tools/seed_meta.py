#!/usr/bin/env python3
"""writes /verif/seeded/<id>/meta.json from the confirmation and trial logs of this session"""
import json, os, re, glob
V = os.path.dirname(os.path.dirname(os.path.abspath(__file__)))
NEEDS = {
 "C01": "composed quaternion with q_w exactly 0 (exact half turn): branch-free sign(0)=0 zeroes the element; never produced by random sampling",
 "C02": "SE2 exp, series branch only (0<|theta|<1e-4) with non-zero translation: th instead of th^2 in the sin(x)/x series",
 "C03": "SE_K_3 with K != 2 (K=3): ad() coupling blocks written to a hard-coded column 6 instead of 3K",
 "C04": "Galilei only, rotation norm <= 1e-4 (series branch of cos_4) with non-zero boost and time: integer division 1/24 = 0",
 "C05": "d2_fog with Ny != Nx (non-square inner map): block stride ny instead of nx; the library's own caller is square",
 "C06": "dynamic-size Eigen vectors only, size >= 2: Hessian type Matrix<S,Dof,Dof*Dof> with Dof=-1 becomes n x 1",
 "C07": "SubManifold with two or more ADJACENT fixed dimensions: 'if' instead of 'while' when skipping fixed indices",
 "C08": "diff::dr<2> in Numerical/Default mode with a vector-valued f whose output dof ny differs from the input dof nx: Hessian block stride ny instead of nx",
 "C09": "a run that reaches the iteration bound without converging first: loop condition iter <= max_iter performs max_iter+1 iterations (max_iter=0 still takes a step)",
 "C10": "dense J only, non-unit scaling d: regulariser lambda*|d| instead of lambda*d^2 (sparse path untouched)",
 "C11": "velocity/acceleration Jacobians w.r.t. differences, groups with non-skew ad (SE2, SE3), at least two non-zero differences: dr_exp(-a) replaced by dr_exp(a)^T",
 "C12": "concat_local (+=) with an appended spline whose start() is not the identity (e.g. a non-localised crop), seen at end()/beyond t_max/second appended segment",
 "C13": "evaluation strictly less than one knot spacing below t_min: clamp removed, truncation toward zero gives istar=0 and u<0",
 "C14": "fit_spline_1d with >=2 segments of different length and a spec with continuity rows (FixedDerCubic, MinDerivative): next segment's derivative scaled with the current interval",
 "C15": "SO3 exp of a tangent with rotation norm in (3pi,5pi): sign chosen from the angle instead of from q_w, so q_w<0",
 "C16": "SE_K_3<K> with K != 3, mutable runtime-index accessor r3(int k), k>=1: stride K instead of 3",
 "C17": "SO2(std::complex) with |z| != 1 (and C1::so2() with scaling != 1): divides by std::norm = |z|^2",
 "C19": "Hessian sparse routines on a host whose block columns hold other stored entries above the block (non-zero offset): lockstep InnerIterator without row check",
 "C20": "binary_interval_search on a range with a repeated value queried exactly at that value: early exit on equality",
}
NEEDS.update({
 "C18": "one shared const Spline with at least two CROPPED segments evaluated by two threads in different cropped segments: start compensation cached in mutable members",
 "C02b": "SO3 log, small-angle series branch (rotation angle 8e-5..2e-4, double only): second series term with the wrong sign; relative error up to 6.6e-9 (tolerance 1e-9)",
 "C04b": "SE2 dr_expinv / dl_expinv, series branch (0 < |theta| < 1e-4) with non-zero translation: leading coefficient 1/24 instead of 1/12",
 "C07b": "std::vector of dynamic-dof elements with DIFFERENT run-time dofs (VectorXd of mixed sizes, nested vectors): tangent offset i*dof_i instead of the running sum",
 "C12b": "concat_global where an appended (or same-index existing) segment is cropped (m_seg_T0 != 0): crop offset copied from *this instead of other",
 "C15b": "boost-odeint adaptor scale_sum with a start state that does not commute with the increment (non-identity x0 on SO3/SE2/SE3): lplus instead of rplus",
 "C16b": "x *= y where y views memory that x writes (two Maps on one buffer, g.so2() *= g.so2(), g *= g) on SO2/SE2/Bundles: composition writes into the aliased operand",
 "C17b": "SO3::rot_z with angles where sin(t/2) and cos(t/2) have opposite signs (t in (-pi,0), (pi,2pi) ...): canonical-sign test on q_z instead of q_w",
 "C20b": "monomial_integral<K,P> with K=9,P>=7 or K=10,P>=6: factorial products accumulated in 32 bits wrap",
})
NEEDS.update({
 "C01c": "SE_K_3<K> composition with K != 2 (K >= 3; K = 1 reads out of range): rotation of the left operand read at the hard-coded offset 6 instead of 3K",
 "C03c": "SE_K_3<K>::vee with K != 2 (K = 1 in bounds): translation column index Dim-2+i instead of 3+i",
 "C05c": "SE2 d2r_expinv / d2l_expinv (and rminus Hessians) for 3e-4 < |wz| < 1e-2 with translations > 0.3: series branch (whose dA/dwz is the constant 1/360) used up to eps2_tail",
 "C06c": "Bundle d2r_exp / d2l_exp when a non-commutative part's tangent segment is exactly zero: the part's Hessian block (entries +-0.5) is skipped",
 "C09c": "DisneyStrategy selected and a trial step with rho <= 0 (overshooting Gauss-Newton step): the step is accepted, cost increases",
 "C11c": "vel/acc/jer outputs of cspline_eval_vs/gs on groups with non-orthogonal adjoint (SE2, SE3), K >= 2: Ad(exp)^T instead of Ad(exp^-1)",
 "C13c": "BSpline evaluation strictly inside (t_max, t_max+dt): upper clamp off by one, evaluates on K control points",
 "C19c": "ad_sparse on a matrix that already holds non-zero stored values (re-used for a second tangent): missing setZero, result accumulates",
})
NEEDS.update({
 "C02d": "SE_K_3<K>::log with K >= 3: i-th translation block read with stride K+1 instead of 3 (K=2: identical)",
 "C07d": "AnyManifold wrapping a value with run-time dof (VectorXd, std::vector<M>, variant): dof() returns the compile-time Dof<M> = -1",
 "C10d": "solve_linear_ldlt with a ROW-MAJOR non-square J (sparse): regularisation loop bounded by J.outerSize() (= rows) instead of the number of unknowns",
 "C12d": "FixedCubic with a non-identity start pose on a non-commutative group: relative end pose gb*ga^-1 instead of ga^-1*gb",
 "C14d": "fit_spline on a non-commutative group with a degree >= 5 specification (MinDerivative): inverse factors of the middle-control correction multiplied in the wrong order",
 "C17d": "SO2(std::complex) / C1::so2() with |z| != 1: divides by std::norm (squared magnitude)",
 "C18d": "two threads calling d2r_exp_sparse / d2r_expinv_sparse (dense fall-back, e.g. SE2, SO3, SE3) concurrently: function-local static scratch Hessian shared between threads",
 "C20d": "integrate_absolute_polynomial for a quadratic whose two real roots both lie left of the interval: lower clamp of the larger root dropped",
})
NEEDS.update({
 "C13e": "BSpline::t_max() with t0 != 0 and dt != 1: (t0 + N - K) * dt instead of t0 + (N - K) * dt",
 "C15e": "SO3 composition (and everything delegating to it) whose product has q_w in [-1e-8, 0): canonical-sign flip guarded by a tolerance",
 "C16e": "cross-storage assignment (Map<G> = Map<const G>, sub-part views) between two views of one buffer that overlap partially with the source starting AFTER the destination: copy direction chosen the wrong way round",
 "C19e": "dr_exp_sparse / dr_expinv_sparse for a commutative group or Bundle part at a non-zero block offset: diagonal loop starts at i0 but is bounded by a.size()",
})
conf = {}
for f in ("/tmp/confirm_all.out", "/tmp/confirm_all2.out", "/tmp/confirm_all3.out", "/tmp/confirm_all4.out", "/tmp/confirm_all5.out", "/tmp/confirm_all6.out", "/tmp/confirm_all7.out"):
    if os.path.exists(f):
        for l in open(f):
            m = re.match(r"CONFIRM (C\d+[bcde]?): demo with change exit=(\d+), without exit=(\d+)", l)
            if m:
                conf[m.group(1)] = (int(m.group(2)), int(m.group(3)))
import glob as _g
for f in _g.glob("/tmp/seed_C*/confirm_demo.txt"):
    for l in open(f):
        m = re.match(r"CONFIRM (C\d+[bcde]?): demo with change exit=(\d+), without exit=(\d+)", l)
        if m:
            conf.setdefault(m.group(1), (int(m.group(2)), int(m.group(3))))
tries = {}
for f in ("/tmp/try_all.out", "/tmp/try_all2.out", "/tmp/try_all3.out", "/tmp/try_all4.out", "/tmp/try_all5.out", "/tmp/try_all6.out", "/tmp/try_all7.out", "/tmp/try_all8.out", "/tmp/try_all9.out", "/tmp/try_all10.out"):
    if os.path.exists(f):
        for l in open(f):
            m = re.match(r"TRY seed=(C\d+[bcde]?) check=(C\d+) exit=(\d+) : (\d+) violations; (.*)", l)
            if m:
                tries[m.group(1)] = dict(check=m.group(2), exit=int(m.group(3)), violations=int(m.group(4)), summary=m.group(5).strip())
for sid in sorted(NEEDS):
    d = os.path.join(V, "seeded", sid)
    if not os.path.isdir(d):
        continue
    tests = ""
    tf = "/tmp/seed_%s/confirm_tests.txt" % sid
    if os.path.exists(tf):
        tests = open(tf).read().strip()
    vio = []
    of = "/tmp/try_%s_%s.out" % (sid, sid[:3])
    if os.path.exists(of):
        lines = open(of).read().splitlines()
        for i, l in enumerate(lines):
            if l.startswith("VIOLATION") and i + 1 < len(lines):
                vio.append(lines[i + 1].strip()[:300])
    meta = {
        "breaks_property": sid[:3],
        "needs_to_manifest": NEEDS[sid],
        "origin": "independent sub-agent given only the property text and a scratch worktree",
        "confirmed_by_me": {
            "scratch_worktree": "/tmp/wt_confirm (removed afterwards)",
            "existing_test_suite_with_change": tests,
            "demo_exit_with_change": conf.get(sid, (None, None))[0],
            "demo_exit_without_change": conf.get(sid, (None, None))[1],
            "commands": ["tools/confirm_seed.sh %s" % sid, "SEEDDIR=seeded/%s tools/try_seed.sh %s %s" % (sid, sid, sid[:3])],
        },
        "check_result_with_change_applied_to_repo": tries.get(sid),
        "first_violations_reported": vio[:3],
    }
    mp = os.path.join(d, "meta.json")
    if os.path.exists(mp) and not tests:
        continue   # the confirmation logs of this seed are gone (scratch dirs removed): keep the meta written while they existed
    json.dump(meta, open(mp, "w"), indent=1)
    print(sid, conf.get(sid), (tries.get(sid) or {}).get("violations"))
