#!/usr/bin/env python3
"""Generate the one-header libstdc++ shim that lets clang-14 instantiate range views
(DESIGN 2.1).  Every constrained non-template member of std::ranges::view_interface becomes a
member template with a defaulted _Dp=_Derived so that its constraint is evaluated lazily.
Semantics preserving; cross-checked on every run by the native differential validation."""
import re, sys, os, glob

def patch(src: str) -> str:
    a = src.index("class view_interface")
    b = src.index("namespace __detail", a)
    body = src[a:b]
    pub = body.index("public:")
    head, mem = body[:pub], body[pub:]
    # split members on blank lines
    parts = re.split(r"(\n\s*\n)", mem)
    out = []
    n = 0
    for p in parts:
        if "requires" in p and "operator[]" not in p:
            const = bool(re.search(r"\)\s*const", p))
            i = p.index("requires")
            j = p.index("{", i) if "requires requires" not in p else None
            if j is None:
                # operator bool
                k = p.index("requires requires")
                e = p.index("}", k) + 1
                dp = "const _Dp&" if const else "_Dp&"
                clause = "requires requires(%s __d) { ranges::empty(__d); }" % dp
                p = p[:k] + clause + p[e:]
            else:
                clause = p[i:j].replace("_Derived", "_Dp")
                p = p[:i] + clause + p[j:]
            # insert template header before first 'constexpr'
            c = p.index("constexpr")
            p = p[:c] + "template<typename _Dp = _Derived>\n      " + p[c:]
            n += 1
        elif "operator[]" in p:
            p = p.replace("template<random_access_range _Range = _Derived>",
                          "template<typename _Range = _Derived> requires random_access_range<_Range>")
            p = p.replace("template<random_access_range _Range = const _Derived>",
                          "template<typename _Range = const _Derived> requires random_access_range<_Range>")
            n += 1
        out.append(p)
    if n < 12:
        raise SystemExit("mkshim: unexpected view_interface layout (%d members patched)" % n)
    return src[:a] + head + "".join(out) + src[b:]

def main():
    dst = sys.argv[1]
    cands = sorted(glob.glob("/usr/include/c++/*/bits/ranges_util.h"))
    if not cands:
        raise SystemExit("mkshim: no libstdc++ ranges_util.h")
    src = open(cands[-1]).read()
    os.makedirs(os.path.join(dst, "bits"), exist_ok=True)
    open(os.path.join(dst, "bits", "ranges_util.h"), "w").write(patch(src))
    print("mkshim: patched", cands[-1], "->", dst)

if __name__ == "__main__":
    main()
