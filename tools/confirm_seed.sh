#!/bin/bash
# confirm a seeded change independently: applies /tmp/seed_<ID>/patch.diff in a scratch worktree, builds and runs the
# whole test suite, then checks that the demo fails with the change and passes without it.
ID=$1
S=/tmp/seed_$ID
W=/tmp/wt_confirm
set -e
if [ ! -d $W ]; then git -C /repo worktree add -q $W HEAD; fi
git -C $W checkout -q -- . ; git -C $W clean -qfd -e _build
git -C $W apply $S/patch.diff
cd $W
cmake -G Ninja -S . -B _build -DBUILD_TESTS=ON -DCMAKE_BUILD_TYPE=RelWithDebInfo -DCMAKE_CXX_FLAGS=-Wno-error >/dev/null
cmake --build _build -j6 2>&1 | tail -1
ctest --test-dir _build -j6 2>&1 | grep "tests passed\|tests failed" | tee $S/confirm_tests.txt
g++ -std=gnu++20 -O1 -pthread -I$W/include -I$W/_build/include -isystem /usr/include/eigen3 $S/demo.cpp -o $S/demo_with 2>&1 | tail -3
set +e
$S/demo_with > $S/demo_with.out 2>&1; RC1=$?
git -C $W checkout -q -- .
g++ -std=gnu++20 -O1 -pthread -I$W/include -I$W/_build/include -isystem /usr/include/eigen3 $S/demo.cpp -o $S/demo_without 2>&1 | tail -3
$S/demo_without > $S/demo_without.out 2>&1; RC2=$?
echo "CONFIRM $ID: demo with change exit=$RC1, without exit=$RC2" | tee $S/confirm_demo.txt
