#!/bin/bash
# offline setup: build irdump + the libstdc++ shim (files on disk only)
set -e
cd "$(dirname "$0")"
mkdir -p build evidence
export PYTHONPATH=/verif
python3-vt -m symx.build
