#!/bin/bash
# runs the repository's pinned test suite with the verification guard OFF (no -DPETTNI_SMOOTH_VERIF anywhere)
set -e
B=${SMOOTH_BASELINE_BUILD:-/repo/_build}
if [ ! -f "$B/build.ninja" ]; then cmake -G Ninja -S /repo -B "$B" -DBUILD_TESTS=ON >/dev/null; fi
cmake --build "$B" -j16 >/dev/null
ctest --test-dir "$B" -j8 --timeout 900
