// Relations and conversions between groups (C17)
#pragma once
#include "vm.hpp"
#include <complex>
namespace vrel {
using SO2 = smooth::SO2d; using SO3 = smooth::SO3d; using SE2 = smooth::SE2d; using SE3 = smooth::SE3d; using C1 = smooth::C1d;
inline void angles(const double * in, double * out) { smooth::Map<const SO2> g(in); out[0] = g.angle(); out[1] = g.angle_cw(); out[2] = g.angle_ccw(); }
inline void lift_project_so(const double * in, double * out) { smooth::Map<const SO2> g(in); SO3 l = g.lift_so3(); vm::store(l, out); vm::store(l.project_so2(), out); }
inline void lift_project_se(const double * in, double * out) { smooth::Map<const SE2> g(in); SE3 l = g.lift_se3(); vm::store(l, out); vm::store(l.project_se2(), out); }
inline void lift_hom_so(const double * in, double * out) { smooth::Map<const SO2> a(in), b(in + 2); vm::store((a * b).lift_so3(), out); vm::store(a.lift_so3() * b.lift_so3(), out); }
inline void lift_hom_se(const double * in, double * out) { smooth::Map<const SE2> a(in), b(in + 4); vm::store((a * b).lift_se3(), out); vm::store(a.lift_se3() * b.lift_se3(), out); }
inline void c1_parts(const double * in, double * out) { smooth::Map<const C1> g(in); *out++ = g.scaling(); vm::store(g.so2(), out); }
template<int AX> void rot(const double * in, double * out)
{
  SO3 r = AX == 0 ? SO3::rot_x(in[0]) : (AX == 1 ? SO3::rot_y(in[0]) : SO3::rot_z(in[0]));
  vm::store(r, out);
  Eigen::Vector3d a = Eigen::Vector3d::Zero(); a(AX) = in[0];
  vm::store(SO3::exp(a), out);
}
inline void quat_ctor(const double * in, double * out) { Eigen::Quaterniond q(in[3], in[0], in[1], in[2]); vm::store(SO3(q), out); }
inline void so2_ctor(const double * in, double * out) { vm::store(SO2(in[0], in[1]), out); vm::store(SO2(std::complex<double>(in[1], in[0])), out); SO2 g(in[0], in[1]); auto u = g.u1(); *out++ = u.imag(); *out++ = u.real(); }
inline void se3_isometry(const double * in, double * out) { smooth::Map<const SE3> g(in); SE3 h(g.isometry()); vm::store(h, out); }
inline void se2_isometry(const double * in, double * out) { smooth::Map<const SE2> g(in); SE2 h(g.isometry()); vm::store(h, out); }
inline void so3_quat_matrix(const double * in, double * out) { smooth::Map<const SO3> g(in); Eigen::Matrix3d R = g.quat().toRotationMatrix(); SO3 h{Eigen::Quaterniond(R)}; vm::store(h, out); }
inline void so3_euler(const double * in, double * out) { smooth::Map<const SO3> g(in); Eigen::Vector3d e = g.eulerAngles(); SO3 h = SO3::rot_z(e(0)) * SO3::rot_y(e(1)) * SO3::rot_x(e(2)); vm::store(h, out); }
}  // namespace vrel
#define VREL(N) extern "C" void rel_##N(const double * i, double * o) { vrel::N(i, o); }
VREL(angles) VREL(lift_project_so) VREL(lift_project_se) VREL(lift_hom_so) VREL(lift_hom_se) VREL(c1_parts) VREL(quat_ctor) VREL(so2_ctor)
VREL(se3_isometry) VREL(se2_isometry) VREL(so3_quat_matrix) VREL(so3_euler)
extern "C" void rel_rot_x(const double * i, double * o) { vrel::rot<0>(i, o); }
extern "C" void rel_rot_y(const double * i, double * o) { vrel::rot<1>(i, o); }
extern "C" void rel_rot_z(const double * i, double * o) { vrel::rot<2>(i, o); }
