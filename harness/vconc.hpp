// Concurrency harness (C18): shared const objects are built once by conc_init (heap), then const operations
// are run on them.  symx decides that no operation writes to an object that existed before the call.
#pragma once
#include "vm.hpp"
#include <smooth/spline/spline.hpp>
#include <smooth/spline/bspline.hpp>
#include <smooth/lie_sparse.hpp>

namespace vconc {
using SO3 = smooth::SO3d;
using SE2 = smooth::SE2d;
struct Shared
{
  SO3 so3;
  SE2 se2;
  smooth::SE3d se3;
  smooth::Bundle<SO3, Eigen::Vector3d> bun;
  smooth::SubManifold<SO3> sub, sub2;
  smooth::AnyManifold any, any2;
  std::vector<SO3> vec, vec2;
  smooth::Spline<3, SE2> spl;
  smooth::BSpline<3, SO3> bsp;
  Eigen::Vector3d tang;
  Shared(const double * in)
      : so3(vm::load<SO3>(in)), se2(vm::load<SE2>(in + 4)), se3(vm::load<smooth::SE3d>(in + 8)), bun(so3, Eigen::Vector3d(in[1], in[2], in[3])),
        sub(so3, vm::load<SO3>(in + 15), (Eigen::VectorXi(1) << 1).finished()), sub2(so3, vm::load<SO3>(in + 19), (Eigen::VectorXi(1) << 1).finished()),
        any(vm::load<SO3>(in + 15)), any2(vm::load<SO3>(in + 19)), vec{vm::load<SO3>(in), vm::load<SO3>(in + 15)},
        vec2{vm::load<SO3>(in + 19), vm::load<SO3>(in)}, spl(), bsp(), tang(in[23], in[24], in[25])
  {
    spl = smooth::Spline<3, SE2>::ConstantVelocity(Eigen::Vector3d(in[23], in[24], in[25]), 1.5, se2);
    spl += smooth::Spline<3, SE2>::ConstantVelocity(Eigen::Vector3d(in[24], in[25], in[23]), 2.0);
    // segments that start in the middle of their cubic (crop): evaluation takes the start-compensation branch there
    spl += smooth::Spline<3, SE2>::ConstantVelocity(Eigen::Vector3d(in[25], in[23], in[24]), 2.0).crop(0.5, 1.75);
    spl += smooth::Spline<3, SE2>::ConstantVelocity(Eigen::Vector3d(in[23], in[25], in[24]), 1.0).crop(0.25, 0.75);
    std::vector<SO3> cp{vm::load<SO3>(in), vm::load<SO3>(in + 15), vm::load<SO3>(in + 19), vm::load<SO3>(in), vm::load<SO3>(in + 15)};
    bsp = smooth::BSpline<3, SO3>(0., 1., cp);
  }
};
inline Shared * shared = nullptr;
}  // namespace vconc

#define SH (*vconc::shared)
extern "C" void conc_init(const double * in, double *) { vconc::shared = new vconc::Shared(in); }
// every op: const access to the shared objects only; results go to `out` (thread-private)
extern "C" void op_group(const double *, double * out)
{
  const auto & s = SH;
  vm::store(s.so3 * s.so3.inverse(), out);
  vh::put(s.so3.log(), out);
  vh::put(s.so3.Ad(), out);
  vh::put(s.se3.log(), out);
  vh::put(s.se2 * Eigen::Vector2d(1., 2.), out);
  vh::put(vconc::SO3::dr_exp(s.tang), out);
  vh::put(vconc::SO3::d2r_expinv(s.tang), out);
  vh::put(s.bun.log(), out);
}
extern "C" void op_sub(const double *, double * out)
{
  const auto & s = SH;
  Eigen::VectorXd a(2);
  a << 0.1, 0.2;
  auto r = smooth::rplus(s.sub, a);
  vm::store(r.m(), out);
  auto d = smooth::rminus(s.sub, s.sub2);
  for (int i = 0; i < d.size(); ++i) *out++ = d(i);
  *out++ = static_cast<double>(smooth::dof(s.sub));
}
extern "C" void op_any(const double *, double * out)
{
  const auto & s = SH;
  Eigen::VectorXd a(3);
  a << 0.1, 0.2, 0.3;
  auto r = smooth::rplus(s.any, a);
  vm::store(r.get<vconc::SO3>(), out);
  auto d = smooth::rminus(s.any, s.any2);
  for (int i = 0; i < d.size(); ++i) *out++ = d(i);
  *out++ = static_cast<double>(smooth::dof(s.any));
}
extern "C" void op_vec(const double *, double * out)
{
  const auto & s = SH;
  Eigen::VectorXd a(6);
  a << 0.1, 0.2, 0.3, 0.4, 0.5, 0.6;
  auto r = smooth::rplus(s.vec, a);
  for (const auto & x : r) vm::store(x, out);
  auto d = smooth::rminus(s.vec, s.vec2);
  for (int i = 0; i < d.size(); ++i) *out++ = d(i);
}
extern "C" void op_spline(const double * in, double * out)
{
  const auto & s = SH;
  Eigen::Vector3d vel, acc;
  auto g = s.spl(in[26], vel, acc);
  vm::store(g, out);
  vh::put(vel, out);
  vh::put(acc, out);
  *out++ = s.spl.t_max();
}
extern "C" void op_bspline(const double * in, double * out)
{
  const auto & s = SH;
  Eigen::Vector3d vel, acc;
  auto g = s.bsp(in[26], vel, acc);
  vm::store(g, out);
  vh::put(vel, out);
  vh::put(acc, out);
}
extern "C" void op_sparse(const double *, double * out)
{
  const auto & s = SH;
  Eigen::SparseMatrix<double> sp = smooth::d_exp_sparse_pattern<smooth::SE2d>;  // thread-private copy of the shared pattern
  smooth::dr_exp_sparse<smooth::SE2d>(sp, Eigen::Vector3d(s.tang), 0);
  Eigen::MatrixXd D(sp);
  vh::put(D, out);
  Eigen::SparseMatrix<double> sp2 = smooth::ad_sparse_pattern<smooth::SO3d>;
  smooth::ad_sparse<smooth::SO3d>(sp2, s.tang);
  Eigen::MatrixXd D2(sp2);
  vh::put(D2, out);
  // Hessian routines (dense fall-back inside the library) and the inverse Jacobian, each into a thread-private matrix
  Eigen::SparseMatrix<double> h1 = smooth::d2_exp_sparse_pattern<smooth::SE2d>, h2 = smooth::d2_exp_sparse_pattern<smooth::SE2d>;
  smooth::d2r_exp_sparse<smooth::SE2d>(h1, Eigen::Vector3d(s.tang), 0);
  smooth::d2r_expinv_sparse<smooth::SE2d>(h2, Eigen::Vector3d(s.tang), 0);
  Eigen::MatrixXd H1(h1), H2(h2);
  vh::put(H1, out);
  vh::put(H2, out);
  Eigen::SparseMatrix<double> sp3 = smooth::d_exp_sparse_pattern<smooth::SO3d>;
  smooth::dr_expinv_sparse<smooth::SO3d>(sp3, s.tang, 0);
  Eigen::MatrixXd D3(sp3);
  vh::put(D3, out);
}
