// numerical / analytic differentiation harness (C08)
#pragma once
#include "vm.hpp"
#include <smooth/diff.hpp>
extern "C" double UFD_val(double x, double y);
extern "C" double UFD_jx(double x, double y);
extern "C" double UFD_jy(double x, double y);
#ifdef VDIFF_NATIVE_UF
extern "C" double UFD_val(double x, double y) { return x * y + x; }
extern "C" double UFD_jx(double x, double y) { return y + 1; }
extern "C" double UFD_jy(double x, double) { return x; }
#endif
namespace vdiff {
using smooth::diff::Type;
// linear family  f(x in R^2, y in R, z in R^n dynamic(2)) = A x + b y + C z + c   (2 outputs);
// in = [A(4) b(2) C(4) c(2) | x(2) y z(2)] ; out = [value(2) | J (2 x 5 row-major) | x y z after the call]
template<bool CONSTARGS>
void lin(const double * in, double * out)
{
  Eigen::Matrix2d A; A << in[0], in[1], in[2], in[3];
  Eigen::Vector2d b(in[4], in[5]);
  Eigen::Matrix2d C; C << in[6], in[7], in[8], in[9];
  Eigen::Vector2d c(in[10], in[11]);
  Eigen::Vector2d x(in[12], in[13]);
  double y = in[14];
  Eigen::VectorXd z(2); z << in[15], in[16];
  auto f = [&](const Eigen::Vector2d & xx, const double & yy, const Eigen::VectorXd & zz) -> Eigen::Vector2d { return A * xx + b * yy + C * zz + c; };
  if constexpr (CONSTARGS) {
    const Eigen::Vector2d xc = x; const double yc = y; const Eigen::VectorXd zc = z;
    auto [v, J] = smooth::diff::dr<1, Type::Numerical>(f, smooth::wrt(xc, yc, zc));
    vh::put(v, out); vh::put(J, out);
    vh::put(xc, out); *out++ = yc; vh::put(zc, out);
  } else {
    auto [v, J] = smooth::diff::dr<1, Type::Numerical>(f, smooth::wrt(x, y, z));
    vh::put(v, out); vh::put(J, out);
    vh::put(x, out); *out++ = y; vh::put(z, out);
  }
}
// quadratic scalar-valued family  f(x in R^2, y in R) = 1/2 [x;y]^T Q [x;y] + q^T [x;y]  ; in = [Q (9, symmetric use) q(3) | x(2) y]
// out = [value | J (1x3) | H (3 x 3) | x y after]
inline void quad(const double * in, double * out)
{
  Eigen::Matrix3d Q;
  for (int i = 0; i < 3; ++i) for (int j = 0; j < 3; ++j) Q(i, j) = in[i * 3 + j];
  Eigen::Vector3d q(in[9], in[10], in[11]);
  Eigen::Vector2d x(in[12], in[13]);
  double y = in[14];
  auto f = [&](const Eigen::Vector2d & xx, const double & yy) -> double { Eigen::Vector3d w(xx(0), xx(1), yy); return 0.5 * w.dot(Q * w) + q.dot(w); };
  auto [v, J, H] = smooth::diff::dr<2, Type::Numerical>(f, smooth::wrt(x, y));
  *out++ = v; vh::put(J, out); vh::put(H, out);
  vh::put(x, out); *out++ = y;
}
// quadratic VECTOR-valued family (ny = 2 != nx = 3): f_m = 1/2 w^T Q_m w + q_m^T w ; in = [Q0(9) Q1(9) q0(3) q1(3) | x(2) y]
// out = [value(2) | J (2x3) | H (3 x 6, blocks per output) | x y after]
inline void quad2(const double * in, double * out)
{
  Eigen::Matrix3d Q0, Q1;
  for (int i = 0; i < 3; ++i) for (int j = 0; j < 3; ++j) { Q0(i, j) = in[i * 3 + j]; Q1(i, j) = in[9 + i * 3 + j]; }
  Eigen::Vector3d q0(in[18], in[19], in[20]), q1(in[21], in[22], in[23]);
  Eigen::Vector2d x(in[24], in[25]);
  double y = in[26];
  auto f = [&](const Eigen::Vector2d & xx, const double & yy) -> Eigen::Vector2d {
    Eigen::Vector3d w(xx(0), xx(1), yy);
    return Eigen::Vector2d(0.5 * w.dot(Q0 * w) + q0.dot(w), 0.5 * w.dot(Q1 * w) + q1.dot(w));
  };
  auto [v, J, H] = smooth::diff::dr<2, Type::Numerical>(f, smooth::wrt(x, y));
  vh::put(v, out); vh::put(J, out);
  // fixed 3 x 6 window of the Hessian, whatever size the library allocated (a wrong size reads out of bounds: memory finding)
  for (int i = 0; i < 3; ++i) for (int j = 0; j < 6; ++j) *out++ = H(i, j);
  *out++ = static_cast<double>(H.rows()); *out++ = static_cast<double>(H.cols());
  vh::put(x, out); *out++ = y;
}
// K = 0 and index subset: out = [value(2) | J of subset <0,2> (2 x 4) ]
inline void subset(const double * in, double * out)
{
  Eigen::Matrix2d A; A << in[0], in[1], in[2], in[3];
  Eigen::Vector2d b(in[4], in[5]);
  Eigen::Matrix2d C; C << in[6], in[7], in[8], in[9];
  Eigen::Vector2d c(in[10], in[11]);
  Eigen::Vector2d x(in[12], in[13]);
  double y = in[14];
  Eigen::Vector2d z(in[15], in[16]);
  auto f = [&](const Eigen::Vector2d & xx, const double & yy, const Eigen::Vector2d & zz) -> Eigen::Vector2d { return A * xx + b * yy + C * zz + c; };
  auto v0 = smooth::diff::dr<0, Type::Numerical>(f, smooth::wrt(x, y, z));
  vh::put(std::get<0>(v0), out);
  auto [v, J] = smooth::diff::dr<1, Type::Numerical>(f, smooth::wrt(x, y, z), std::index_sequence<0, 2>{});
  vh::put(J, out);
}
// analytic pass-through: callable with its own jacobian returning uninterpreted symbols
struct AF
{
  double operator()(const double & x, const double & y) const { return UFD_val(x, y); }
  Eigen::RowVector2d jacobian(const double & x, const double & y) const { return Eigen::RowVector2d(UFD_jx(x, y), UFD_jy(x, y)); }
};
inline void analytic(const double * in, double * out)
{
  double x = in[0], y = in[1];
  AF f;
  auto [v, J] = smooth::diff::dr<1, Type::Analytic>(f, smooth::wrt(x, y));
  *out++ = v; vh::put(J, out);
  auto [v2, J2] = smooth::diff::dr<1, Type::Default>(f, smooth::wrt(x, y));
  *out++ = v2; vh::put(J2, out);
  *out++ = x; *out++ = y;
}
// group argument: f(g in SO3, v in R^3) = g * v ; in = [g(4) v(3)] ; out = [value(3) | J (3 x 6) | g v after]
inline void action(const double * in, double * out)
{
  smooth::SO3d g = vm::load<smooth::SO3d>(in);
  Eigen::Vector3d v(in[4], in[5], in[6]);
  auto f = [](const smooth::SO3d & gg, const Eigen::Vector3d & vv) -> Eigen::Vector3d { return gg * vv; };
  auto [val, J] = smooth::diff::dr<1, Type::Numerical>(f, smooth::wrt(g, v));
  vh::put(val, out); vh::put(J, out);
  vm::store(g, out); vh::put(v, out);
}
}  // namespace vdiff
extern "C" void diff_lin(const double * i, double * o) { vdiff::lin<false>(i, o); }
extern "C" void diff_lin_const(const double * i, double * o) { vdiff::lin<true>(i, o); }
extern "C" void diff_quad(const double * i, double * o) { vdiff::quad(i, o); }
extern "C" void diff_quad2(const double * i, double * o) { vdiff::quad2(i, o); }
extern "C" void diff_subset(const double * i, double * o) { vdiff::subset(i, o); }
extern "C" void diff_analytic(const double * i, double * o) { vdiff::analytic(i, o); }
extern "C" void diff_action(const double * i, double * o) { vdiff::action(i, o); }
