// curve construction harness (C14): fit_spline_1d
#pragma once
#include "vm.hpp"
#include <smooth/spline/fit.hpp>
namespace vfit {
// in = [dt_0..dt_{N-1} | dx_0..dx_{N-1}] ; out = coefficients (N*(K+1))
template<int SPEC, int N>
void fit1d(const double * in, double * out)
{
  std::vector<double> dt(in, in + N), dx(in + N, in + 2 * N);
  Eigen::VectorXd c;
  if constexpr (SPEC == 0) c = smooth::fit_spline_1d(dt, dx, smooth::spline_specs::PiecewiseLinear<double>{});
  if constexpr (SPEC == 1) c = smooth::fit_spline_1d(dt, dx, smooth::spline_specs::FixedDerCubic<double, 1>{});
  if constexpr (SPEC == 2) c = smooth::fit_spline_1d(dt, dx, smooth::spline_specs::FixedDerCubic<double, 2>{});
  if constexpr (SPEC == 3) c = smooth::fit_spline_1d(dt, dx, smooth::spline_specs::MinDerivative<double, 5, 3, 3>{});
  if constexpr (SPEC == 4) c = smooth::fit_spline_1d(dt, dx, smooth::spline_specs::MinDerivative<double, 6, 3, 3>{});
  for (int i = 0; i < c.size(); ++i) *out++ = c(i);
}
// fit_spline on a Lie group (native scan only): in = [t_0..t_{P-1} | g_0..g_{P-1}]; for every data point i the curve is evaluated at
// t_i - d, t_i, t_i + d (d = 1e-7 (t_{P-1}-t_0), clamped to the span): out = P x 3 x [value (RepSize) | body velocity (Dof)]
template<int SPEC, typename G, int P>
void fitgrp(const double * in, double * out)
{
  constexpr int R = vm::rep_of<G>(), D = smooth::Dof<G>;
  std::vector<double> ts(in, in + P);
  std::vector<G> gs;
  for (int i = 0; i < P; ++i) gs.push_back(vm::load<G>(in + P + R * i));
  const double d = 1e-7 * (ts.back() - ts.front());
  auto run = [&](const auto & c) {
    for (int i = 0; i < P; ++i) {
      for (int k = -1; k <= 1; ++k) {
        const double t = std::min(std::max(ts[i] + k * d, ts.front()), ts.back());
        smooth::Tangent<G> vel;
        G g = c(t - ts.front(), vel);
        vm::store(g, out);
        for (int j = 0; j < D; ++j) *out++ = vel(j);
      }
    }
  };
  if constexpr (SPEC == 0) run(smooth::fit_spline(ts, gs, smooth::spline_specs::PiecewiseLinear<G>{}));
  if constexpr (SPEC == 1) run(smooth::fit_spline(ts, gs, smooth::spline_specs::FixedDerCubic<G, 1>{}));
  if constexpr (SPEC == 2) run(smooth::fit_spline(ts, gs, smooth::spline_specs::FixedDerCubic<G, 2>{}));
  if constexpr (SPEC == 3) run(smooth::fit_spline(ts, gs, smooth::spline_specs::MinDerivative<G, 5, 3, 3>{}));
  if constexpr (SPEC == 4) run(smooth::fit_spline(ts, gs, smooth::spline_specs::MinDerivative<G, 6, 3, 3>{}));
}
}  // namespace vfit
