// curve construction harness (C14): fit_spline_1d
#pragma once
#include "vm.hpp"
#include <smooth/spline/fit.hpp>
namespace vfit {
// in = [dt_0..dt_{N-1} | dx_0..dx_{N-1}] ; out = coefficients (N*(K+1))
template<int SPEC, int N>
void fit1d(const double * in, double * out)
{
  std::vector<double> dt(in, in + N), dx(in + N, in + 2 * N);
  Eigen::VectorXd c;
  if constexpr (SPEC == 0) c = smooth::fit_spline_1d(dt, dx, smooth::spline_specs::PiecewiseLinear<double>{});
  if constexpr (SPEC == 1) c = smooth::fit_spline_1d(dt, dx, smooth::spline_specs::FixedDerCubic<double, 1>{});
  if constexpr (SPEC == 2) c = smooth::fit_spline_1d(dt, dx, smooth::spline_specs::FixedDerCubic<double, 2>{});
  if constexpr (SPEC == 3) c = smooth::fit_spline_1d(dt, dx, smooth::spline_specs::MinDerivative<double, 5, 3, 3>{});
  if constexpr (SPEC == 4) c = smooth::fit_spline_1d(dt, dx, smooth::spline_specs::MinDerivative<double, 6, 3, 3>{});
  for (int i = 0; i < c.size(); ++i) *out++ = c(i);
}
}  // namespace vfit
