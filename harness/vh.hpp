// Generic wrappers that drive the REAL smooth templates through their public API.
// Every wrapper has the C signature  void f(const S* in, S* out)  so that symx can run it with
// symbolic inputs and the native build can run it on doubles (DESIGN 2.1, 2.7).
#pragma once
#include <Eigen/Core>
#include <smooth/bundle.hpp>
#include <smooth/c1.hpp>
#include <smooth/galilei.hpp>
#include <smooth/se2.hpp>
#include <smooth/se3.hpp>
#include <smooth/se_k_3.hpp>
#include <smooth/so2.hpp>
#include <smooth/so3.hpp>
#include <smooth/lie_groups/native.hpp>
#include <smooth/derivatives.hpp>

namespace vh {

template<typename M, typename S>
inline void put(const M & m, S *& out)
{
  for (Eigen::Index i = 0; i < m.rows(); ++i)
    for (Eigen::Index j = 0; j < m.cols(); ++j) *out++ = m(i, j);
}

template<typename G>
using Sc = typename G::Scalar;

template<typename G>
void compose(const Sc<G> * in, Sc<G> * out)
{
  smooth::Map<const G> a(in), b(in + G::RepSize);
  smooth::Map<G> o(out);
  o = a * b;
}

template<typename G>
void inverse(const Sc<G> * in, Sc<G> * out)
{
  smooth::Map<const G> a(in);
  smooth::Map<G> o(out);
  o = a.inverse();
}

template<typename G>
void matrix(const Sc<G> * in, Sc<G> * out)
{
  smooth::Map<const G> a(in);
  put(a.matrix(), out);
}

template<typename G>
void identity(const Sc<G> *, Sc<G> * out)
{
  G g = G::Identity();
  for (int i = 0; i < G::RepSize; ++i) out[i] = g.coeffs()(i);
}

template<typename G>
void exp(const Sc<G> * in, Sc<G> * out)
{
  Eigen::Map<const typename G::Tangent> a(in);
  smooth::Map<G> o(out);
  o = G::exp(a);
}

template<typename G>
void log(const Sc<G> * in, Sc<G> * out)
{
  smooth::Map<const G> a(in);
  put(a.log(), out);
}

template<typename G>
void hat(const Sc<G> * in, Sc<G> * out)
{
  Eigen::Map<const typename G::Tangent> a(in);
  put(G::hat(a), out);
}

template<typename G>
void vee(const Sc<G> * in, Sc<G> * out)
{
  // input: Dim x Dim matrix, row major
  Eigen::Matrix<Sc<G>, G::Dim, G::Dim> A;
  for (int i = 0; i < G::Dim; ++i)
    for (int j = 0; j < G::Dim; ++j) A(i, j) = in[i * G::Dim + j];
  put(G::vee(A), out);
}

template<typename G>
void Ad(const Sc<G> * in, Sc<G> * out)
{
  smooth::Map<const G> a(in);
  put(a.Ad(), out);
}

template<typename G>
void ad(const Sc<G> * in, Sc<G> * out)
{
  Eigen::Map<const typename G::Tangent> a(in);
  put(G::ad(a), out);
}

template<typename G>
void bracket(const Sc<G> * in, Sc<G> * out)
{
  Eigen::Map<const typename G::Tangent> a(in), b(in + G::Dof);
  put(G::lie_bracket(a, b), out);
}

#define VH_TANGENT_FN(NAME)                        \
  template<typename G>                             \
  void NAME(const Sc<G> * in, Sc<G> * out)         \
  {                                                \
    Eigen::Map<const typename G::Tangent> a(in);   \
    put(G::NAME(a), out);                          \
  }
VH_TANGENT_FN(dr_exp)
VH_TANGENT_FN(dr_expinv)
VH_TANGENT_FN(dl_exp)
VH_TANGENT_FN(dl_expinv)
VH_TANGENT_FN(d2r_exp)
VH_TANGENT_FN(d2r_expinv)
VH_TANGENT_FN(d2l_exp)
VH_TANGENT_FN(d2l_expinv)

template<typename G, int N>
void action(const Sc<G> * in, Sc<G> * out)
{
  smooth::Map<const G> a(in);
  Eigen::Map<const Eigen::Matrix<Sc<G>, N, 1>> v(in + G::RepSize);
  put(a * v, out);
}

template<typename G, int N>
void dr_action(const Sc<G> * in, Sc<G> * out)
{
  smooth::Map<const G> a(in);
  Eigen::Map<const Eigen::Matrix<Sc<G>, N, 1>> v(in + G::RepSize);
  put(a.dr_action(v), out);
}

template<typename G>
void rplus(const Sc<G> * in, Sc<G> * out)
{
  smooth::Map<const G> g(in);
  Eigen::Map<const typename G::Tangent> a(in + G::RepSize);
  smooth::Map<G> o(out);
  o = g + a;
}

template<typename G>
void rminus(const Sc<G> * in, Sc<G> * out)
{
  smooth::Map<const G> a(in), b(in + G::RepSize);
  put(a - b, out);
}

// [dr_rminus | d2r_rminus | dr_rminus_squarednorm | d2r_rminus_squarednorm] evaluated at the same e
template<typename G>
void rminus_derivs(const Sc<G> * in, Sc<G> * out)
{
  Eigen::Map<const typename G::Tangent> e(in);
  const typename G::Tangent ev = e;
  put(smooth::dr_rminus<G>(ev), out);
  put(smooth::d2r_rminus<G>(ev), out);
  put(smooth::dr_rminus_squarednorm<G>(ev), out);
  put(smooth::d2r_rminus_squarednorm<G>(ev), out);
}

// d_matrix_product for square N x N factors depending on Nvar variables; layout as documented
template<typename S, int N, int Nvar>
void dmp(const S * in, S * out)
{
  Eigen::Matrix<S, N, N> A, B;
  Eigen::Matrix<S, N, N * Nvar> dA, dB;
  for (int i = 0; i < N; ++i) for (int j = 0; j < N; ++j) A(i, j) = *in++;
  for (int i = 0; i < N; ++i) for (int j = 0; j < N * Nvar; ++j) dA(i, j) = *in++;
  for (int i = 0; i < N; ++i) for (int j = 0; j < N; ++j) B(i, j) = *in++;
  for (int i = 0; i < N; ++i) for (int j = 0; j < N * Nvar; ++j) dB(i, j) = *in++;
  put(smooth::d_matrix_product(A, dA, B, dB), out);
}

template<typename S, int No, int Ny, int Nx, bool Dyn>
void d2fog(const S * in, S * out)
{
  using JfT = std::conditional_t<Dyn, Eigen::Matrix<S, -1, -1>, Eigen::Matrix<S, No, Ny>>;
  using HfT = std::conditional_t<Dyn, Eigen::Matrix<S, -1, -1>, Eigen::Matrix<S, Ny, No * Ny>>;
  using JgT = std::conditional_t<Dyn, Eigen::Matrix<S, -1, -1>, Eigen::Matrix<S, Ny, Nx>>;
  using HgT = std::conditional_t<Dyn, Eigen::Matrix<S, -1, -1>, Eigen::Matrix<S, Nx, Ny * Nx>>;
  JfT Jf(No, Ny);
  HfT Hf(Ny, No * Ny);
  JgT Jg(Ny, Nx);
  HgT Hg(Nx, Ny * Nx);
  for (int i = 0; i < No; ++i) for (int j = 0; j < Ny; ++j) Jf(i, j) = *in++;
  for (int i = 0; i < Ny; ++i) for (int j = 0; j < No * Ny; ++j) Hf(i, j) = *in++;
  for (int i = 0; i < Ny; ++i) for (int j = 0; j < Nx; ++j) Jg(i, j) = *in++;
  for (int i = 0; i < Nx; ++i) for (int j = 0; j < Ny * Nx; ++j) Hg(i, j) = *in++;
  put(smooth::d2_fog(Jf, Hf, Jg, Hg), out);
}

}  // namespace vh

#define VH_WRAP(NAME, ...) \
  extern "C" void NAME(const typename vh_scalar_of<__VA_ARGS__>::type * in, typename vh_scalar_of<__VA_ARGS__>::type * out)

#define VH_EXPORT(CNAME, S, EXPR) \
  extern "C" void CNAME(const S * in, S * out) { EXPR(in, out); }
