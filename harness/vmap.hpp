// Map-view harness (C16): every wrapper works on caller memory through Map<G> / Map<const G>.
// Convention: in = [g (rep) | h (rep) | a (dof)], out = viewed region (pre-initialised by the harness with out[i]=in[i] where stated).
#pragma once
#include "vh.hpp"
namespace vmap {
template<typename G> using S = typename G::Scalar;

template<typename G> void assign(const S<G>* in, S<G>* out) { smooth::Map<const G> a(in); smooth::Map<G> o(out); o = a; }
template<typename G> void from_value(const S<G>* in, S<G>* out) { smooth::Map<const G> a(in); G v(a); smooth::Map<G> o(out); o = v; }
template<typename G> void to_value(const S<G>* in, S<G>* out) { smooth::Map<const G> a(in); G v; v = a; for (int i = 0; i < G::RepSize; ++i) out[i] = v.coeffs()(i); }
template<typename G> void mul_inplace(const S<G>* in, S<G>* out) { smooth::Map<G> o(out); o = smooth::Map<const G>(in); smooth::Map<const G> b(in + G::RepSize); o *= b; }
template<typename G> void plus_inplace(const S<G>* in, S<G>* out) { smooth::Map<G> o(out); o = smooth::Map<const G>(in); Eigen::Map<const typename G::Tangent> a(in + 2 * G::RepSize); o += a; }
template<typename G> void set_identity(const S<G>*, S<G>* out) { smooth::Map<G> o(out); o.setIdentity(); }
template<typename G> void mul_map(const S<G>* in, S<G>* out) { smooth::Map<const G> a(in), b(in + G::RepSize); smooth::Map<G> o(out); o = a * b; }
template<typename G> void mul_value(const S<G>* in, S<G>* out) { G a, b; for (int i = 0; i < G::RepSize; ++i) { a.coeffs()(i) = in[i]; b.coeffs()(i) = in[G::RepSize + i]; } G c = a * b; for (int i = 0; i < G::RepSize; ++i) out[i] = c.coeffs()(i); }
template<typename G> void inv_map(const S<G>* in, S<G>* out) { smooth::Map<const G> a(in); smooth::Map<G> o(out); o = a.inverse(); }
template<typename G> void inv_value(const S<G>* in, S<G>* out) { G a; for (int i = 0; i < G::RepSize; ++i) a.coeffs()(i) = in[i]; G c = a.inverse(); for (int i = 0; i < G::RepSize; ++i) out[i] = c.coeffs()(i); }
template<typename G> void log_map(const S<G>* in, S<G>* out) { smooth::Map<const G> a(in); vh::put(a.log(), out); }
template<typename G> void log_value(const S<G>* in, S<G>* out) { G a; for (int i = 0; i < G::RepSize; ++i) a.coeffs()(i) = in[i]; vh::put(a.log(), out); }
template<typename G> void Ad_map(const S<G>* in, S<G>* out) { smooth::Map<const G> a(in); vh::put(a.Ad(), out); }
template<typename G> void Ad_value(const S<G>* in, S<G>* out) { G a; for (int i = 0; i < G::RepSize; ++i) a.coeffs()(i) = in[i]; vh::put(a.Ad(), out); }
// overlapping views of one buffer: g.so3-like sub view updated, then whole view multiplied in place
template<typename G> void selfmul(const S<G>* in, S<G>* out) { smooth::Map<G> o(out); o = smooth::Map<const G>(in); o *= o; }
// assignment between two views of ONE buffer that overlap partially (shifted by one scalar); out = the R+1 scalars of the buffer afterwards
template<typename G> void assign_fwd(const S<G>* in, S<G>* out) { for (int i = 0; i <= G::RepSize; ++i) out[i] = in[i]; smooth::Map<G> d(out); smooth::Map<const G> s(out + 1); d = s; }
template<typename G> void assign_bwd(const S<G>* in, S<G>* out) { for (int i = 0; i <= G::RepSize; ++i) out[i] = in[i]; smooth::Map<G> d(out + 1); smooth::Map<const G> s(out); d = s; }
// the same with the views shifted by TWO scalars (R+2 scalars of the buffer reported)
template<typename G> void assign_fwd2(const S<G>* in, S<G>* out) { for (int i = 0; i < G::RepSize + 2; ++i) out[i] = in[i]; smooth::Map<G> d(out); smooth::Map<const G> s(out + 2); d = s; }
template<typename G> void assign_bwd2(const S<G>* in, S<G>* out) { for (int i = 0; i < G::RepSize + 2; ++i) out[i] = in[i]; smooth::Map<G> d(out + 2); smooth::Map<const G> s(out); d = s; }
template<typename G, typename F> void cast_to(const S<G>* in, F* out) { smooth::Map<const G> a(in); auto c = a.template cast<F>(); for (int i = 0; i < G::RepSize; ++i) out[i] = c.coeffs()(i); }
}  // namespace vmap
