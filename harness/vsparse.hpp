// Sparse derivative harness (C19).  Host matrix = published pattern embedded at block offset I0 in a larger
// compressed matrix that also stores sentinel entries outside the block.  Output: dense view of the host after the
// call | dense routine's result | structure flags (nonZeros unchanged, compressed, index arrays unchanged).
#pragma once
#include "vh.hpp"
#include <smooth/lie_sparse.hpp>
#include <vector>
namespace vsp {
using SpMat = Eigen::SparseMatrix<double>;

inline void flags(const SpMat & sp, const std::vector<int> & outer0, const std::vector<int> & inner0, Eigen::Index nnz0, double *& out)
{
  *out++ = (sp.nonZeros() == nnz0) ? 1.0 : 0.0;
  *out++ = sp.isCompressed() ? 1.0 : 0.0;
  bool same = true;
  for (Eigen::Index i = 0; i <= sp.outerSize(); ++i) same = same && (sp.outerIndexPtr()[i] == outer0[static_cast<std::size_t>(i)]);
  for (Eigen::Index i = 0; i < sp.nonZeros(); ++i) same = same && (sp.innerIndexPtr()[i] == inner0[static_cast<std::size_t>(i)]);
  *out++ = same ? 1.0 : 0.0;
}

inline void snapshot(const SpMat & sp, std::vector<int> & outer0, std::vector<int> & inner0)
{
  outer0.assign(sp.outerIndexPtr(), sp.outerIndexPtr() + sp.outerSize() + 1);
  inner0.assign(sp.innerIndexPtr(), sp.innerIndexPtr() + sp.nonZeros());
}

inline void dense_out(const SpMat & sp, double *& out)
{
  Eigen::MatrixXd D = Eigen::MatrixXd(sp);
  for (Eigen::Index i = 0; i < D.rows(); ++i) for (Eigen::Index j = 0; j < D.cols(); ++j) *out++ = D(i, j);
}

// in = [a (dof) | sentinels (3)]
template<typename G>
void ad(const double * in, double * out)
{
  constexpr int D = smooth::Dof<G>;
  smooth::Tangent<G> a;
  for (int i = 0; i < D; ++i) a(i) = in[i];
  SpMat sp = smooth::ad_sparse_pattern<G>;
  for (Eigen::Index k = 0; k < sp.nonZeros(); ++k) sp.valuePtr()[k] = in[D];  // stale contents
  std::vector<int> o0, i0v;
  snapshot(sp, o0, i0v);
  const auto nnz0 = sp.nonZeros();
  smooth::ad_sparse<G>(sp, a);
  dense_out(sp, out);
  vh::put(smooth::ad<G>(a), out);
  flags(sp, o0, i0v, nnz0, out);
}

template<typename G, int I0, bool Inv>
void dexp(const double * in, double * out)
{
  constexpr int D = smooth::Dof<G>;
  constexpr int N = I0 + D + 1;
  smooth::Tangent<G> a;
  for (int i = 0; i < D; ++i) a(i) = in[i];
  SpMat sp(N, N);
  const SpMat & pat = smooth::d_exp_sparse_pattern<G>;
  for (int c = 0; c < pat.outerSize(); ++c)
    for (SpMat::InnerIterator it(pat, c); it; ++it) sp.insert(I0 + it.row(), I0 + it.col()) = in[D];
  // sentinels outside the block: last row/col and (for I0>0) first row/col
  sp.insert(N - 1, N - 1) = in[D + 1];
  sp.insert(I0, N - 1)    = in[D + 2];
  if (I0 > 0) sp.insert(0, I0) = in[D + 1];
  sp.makeCompressed();
  std::vector<int> o0, i0v;
  snapshot(sp, o0, i0v);
  const auto nnz0 = sp.nonZeros();
  if constexpr (Inv) smooth::dr_expinv_sparse<G>(sp, a, I0); else smooth::dr_exp_sparse<G>(sp, a, I0);
  dense_out(sp, out);
  if constexpr (Inv) vh::put(smooth::dr_expinv<G>(a), out); else vh::put(smooth::dr_exp<G>(a), out);
  flags(sp, o0, i0v, nnz0, out);
}

template<typename G, int I0, bool Inv>
void d2exp(const double * in, double * out)
{
  constexpr int D = smooth::Dof<G>;
  constexpr int N = I0 + D + 1;
  smooth::Tangent<G> a;
  for (int i = 0; i < D; ++i) a(i) = in[i];
  SpMat sp(N, N * N);
  const SpMat & pat = smooth::d2_exp_sparse_pattern<G>;
  for (int c = 0; c < pat.outerSize(); ++c)
    for (SpMat::InnerIterator it(pat, c); it; ++it) {
      const int block = static_cast<int>(it.col()) / D, col = static_cast<int>(it.col()) % D;
      sp.insert(I0 + it.row(), N * (I0 + block) + I0 + col) = in[D];
    }
  sp.insert(N - 1, N * N - 1) = in[D + 1];
  sp.insert(I0, N * (I0) + N - 1) = in[D + 2];
  if (I0 > 0) sp.insert(0, N * I0 + I0) = in[D + 1];  // stored entry ABOVE the block inside a block column
  sp.makeCompressed();
  std::vector<int> o0, i0v;
  snapshot(sp, o0, i0v);
  const auto nnz0 = sp.nonZeros();
  if constexpr (Inv) smooth::d2r_expinv_sparse<G>(sp, a, I0); else smooth::d2r_exp_sparse<G>(sp, a, I0);
  dense_out(sp, out);
  if constexpr (Inv) vh::put(smooth::d2r_expinv<G>(a), out); else vh::put(smooth::d2r_exp<G>(a), out);
  flags(sp, o0, i0v, nnz0, out);
}
}  // namespace vsp
