// Spline harness (C11-C13): wrappers around cspline_eval_*, Spline<K,G>, BSpline<K,G>.
#pragma once
#include "vm.hpp"
#include <smooth/spline/cumulative_spline.hpp>
#include <smooth/spline/spline.hpp>
#include <smooth/spline/bspline.hpp>
#include <smooth/polynomial/basis.hpp>

namespace vspl {
template<typename G> constexpr int dofc() { return smooth::Dof<G>; }
template<typename G> constexpr int repc() { return vm::rep_of<G>(); }

template<int K, bool BSPL>
auto cumbasis()
{
  constexpr auto B = smooth::polynomial_cumulative_basis<BSPL ? smooth::PolynomialBasis::Bspline : smooth::PolynomialBasis::Bernstein, K, double>();
  Eigen::Matrix<double, K + 1, K + 1> M;
  for (int i = 0; i <= K; ++i) for (int j = 0; j <= K; ++j) M(i, j) = B[i][j];
  return M;
}

template<typename G>
void put_tangent(const smooth::Tangent<G> & t, double *& o) { for (int i = 0; i < t.size(); ++i) *o++ = t(i); }

// in = [u | v_1..v_K], out = [value | vel | acc | jer]
template<int K, typename G, bool BSPL>
void csp_vs(const double * in, double * out)
{
  constexpr int D = dofc<G>();
  std::vector<smooth::Tangent<G>> vs;
  for (int j = 0; j < K; ++j) { smooth::Tangent<G> v; for (int c = 0; c < D; ++c) v(c) = in[1 + j * D + c]; vs.push_back(v); }
  smooth::Tangent<G> vel, acc, jer;
  const auto B = cumbasis<K, BSPL>();
  G g = smooth::cspline_eval_vs<K, G>(vs, B, in[0], vel, acc, jer);
  vm::store(g, out);
  put_tangent<G>(vel, out); put_tangent<G>(acc, out); put_tangent<G>(jer, out);
}
// in = [u | g_0..g_K]
template<int K, typename G, bool BSPL>
void csp_gs(const double * in, double * out)
{
  constexpr int R = repc<G>();
  std::vector<G> gs;
  for (int j = 0; j <= K; ++j) gs.push_back(vm::load<G>(in + 1 + j * R));
  smooth::Tangent<G> vel, acc, jer;
  const auto B = cumbasis<K, BSPL>();
  G g = smooth::cspline_eval_gs<K>(gs, B, in[0], vel, acc, jer);
  vm::store(g, out);
  put_tangent<G>(vel, out); put_tangent<G>(acc, out); put_tangent<G>(jer, out);
}
// out = [dg_dvs | dvel_dvs | dacc_dvs], each D x D*K row-major
template<int K, typename G, bool BSPL>
void csp_dvs(const double * in, double * out)
{
  constexpr int D = dofc<G>();
  std::vector<smooth::Tangent<G>> vs;
  for (int j = 0; j < K; ++j) { smooth::Tangent<G> v; for (int c = 0; c < D; ++c) v(c) = in[1 + j * D + c]; vs.push_back(v); }
  smooth::SplineJacobian<G, K - 1> dvel, dacc;
  const auto B = cumbasis<K, BSPL>();
  auto dg = smooth::cspline_eval_dg_dvs<K, G>(vs, B, in[0], dvel, dacc);
  vh::put(dg, out); vh::put(dvel, out); vh::put(dacc, out);
}
// out = [dg_dgs | dvel_dgs | dacc_dgs], each D x D*(K+1)
template<int K, typename G, bool BSPL>
void csp_dgs(const double * in, double * out)
{
  constexpr int R = repc<G>();
  std::vector<G> gs;
  for (int j = 0; j <= K; ++j) gs.push_back(vm::load<G>(in + 1 + j * R));
  smooth::SplineJacobian<G, K> dvel, dacc;
  const auto B = cumbasis<K, BSPL>();
  auto dg = smooth::cspline_eval_dg_dgs<K>(gs, B, in[0], dvel, dacc);
  vh::put(dg, out); vh::put(dvel, out); vh::put(dacc, out);
}
}  // namespace vspl

namespace vspl {
// in = [t0, dt, c_0..c_{N-1}, t] ; out = [value | vel | acc | t_min | t_max]
template<int K, typename G, int N>
void bsp_eval(const double * in, double * out)
{
  constexpr int R = repc<G>();
  std::vector<G> cp;
  for (int j = 0; j < N; ++j) cp.push_back(vm::load<G>(in + 2 + j * R));
  smooth::BSpline<K, G> s(in[0], in[1], cp);
  smooth::Tangent<G> vel, acc;
  G g = s(in[2 + N * R], vel, acc);
  vm::store(g, out);
  put_tangent<G>(vel, out); put_tangent<G>(acc, out);
  *out++ = s.t_min();
  *out++ = s.t_max();
}
}  // namespace vspl
