// odeint adaptor harness (C15)
#pragma once
#include "vm.hpp"
#include <boost/numeric/odeint.hpp>
#include <smooth/compat/odeint.hpp>
namespace vode {
namespace ode = boost::numeric::odeint;
// in = [x (rep) | alpha_1..alpha_{N+1} | a_1..a_N (dof each)]  out = y
template<typename G, int N>
void scale_sum(const double * in, double * out)
{
  constexpr int R = vm::rep_of<G>(), D = smooth::Dof<G>;
  const G x = vm::load<G>(in);
  const double * al = in + R;
  std::array<smooth::Tangent<G>, N> a;
  for (int k = 0; k < N; ++k) for (int c = 0; c < D; ++c) a[k](c) = in[R + N + 1 + k * D + c];
  G y;
  if constexpr (N == 1) smooth::detail::BoostOdeintOps::scale_sum2<double>(al[0], al[1])(y, x, a[0]);
  if constexpr (N == 2) smooth::detail::BoostOdeintOps::scale_sum3<double>(al[0], al[1], al[2])(y, x, a[0], a[1]);
  if constexpr (N == 3) smooth::detail::BoostOdeintOps::scale_sum4<double>(al[0], al[1], al[2], al[3])(y, x, a[0], a[1], a[2]);
  if constexpr (N == 4) smooth::detail::BoostOdeintOps::scale_sum5<double>(al[0], al[1], al[2], al[3], al[4])(y, x, a[0], a[1], a[2], a[3]);
  if constexpr (N == 6) smooth::detail::BoostOdeintOps::scale_sum7<double>(al[0], al[1], al[2], al[3], al[4], al[5], al[6])(y, x, a[0], a[1], a[2], a[3], a[4], a[5]);
  vm::store(y, out);
}
// one fixed step of an explicit stepper on dx = x * hat(v) with constant body velocity v; in = [x | v | h]
template<typename G, int STEPPER>
void step(const double * in, double * out)
{
  constexpr int R = vm::rep_of<G>(), D = smooth::Dof<G>;
  G x = vm::load<G>(in);
  smooth::Tangent<G> v;
  for (int c = 0; c < D; ++c) v(c) = in[R + c];
  const double h = in[R + D];
  auto sys = [&v](const G &, smooth::Tangent<G> & d, double) { d = v; };
  using State = G; using Deriv = smooth::Tangent<G>;
  if constexpr (STEPPER == 0) { ode::euler<State, double, Deriv, double, ode::vector_space_algebra> s; s.do_step(sys, x, 0., h); }
  if constexpr (STEPPER == 1) { ode::runge_kutta4<State, double, Deriv, double, ode::vector_space_algebra> s; s.do_step(sys, x, 0., h); }
  if constexpr (STEPPER == 2) { ode::runge_kutta_cash_karp54<State, double, Deriv, double, ode::vector_space_algebra> s; s.do_step(sys, x, 0., h); }
  if constexpr (STEPPER == 3) { ode::runge_kutta_dopri5<State, double, Deriv, double, ode::vector_space_algebra> s; s.do_step(sys, x, 0., h); }
  vm::store(x, out);
}
}  // namespace vode
