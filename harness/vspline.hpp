// Spline<K,G> harness (C12).  States are built directly through the guarded friend hook so that one operation from an
// ARBITRARY representation-invariant state is an inductive step covering histories of any length.
// state layout: [g0 (R) | N x (end_t, T0, Del, V (D*K, column-major: v_1..v_K), end_g (R))]
#pragma once
#include "vspl.hpp"

struct smooth_verif_access
{
  template<int K, typename G>
  static smooth::Spline<K, G> make(const double * in, int N, const double ** next = nullptr)
  {
    constexpr int R = vm::rep_of<G>(), D = smooth::Dof<G>;
    smooth::Spline<K, G> s;
    s.m_g0 = vm::load<G>(in);
    in += R;
    for (int i = 0; i < N; ++i) {
      s.m_end_t.push_back(in[0]);
      s.m_seg_T0.push_back(in[1]);
      s.m_seg_Del.push_back(in[2]);
      Eigen::Matrix<double, D, K> V;
      for (int j = 0; j < K; ++j) for (int c = 0; c < D; ++c) V(c, j) = in[3 + j * D + c];
      s.m_Vs.push_back(V);
      s.m_end_g.push_back(vm::load<G>(in + 3 + D * K));
      in += 3 + D * K + R;
    }
    if (next) *next = in;
    return s;
  }
};

namespace vspline {
template<int K, typename G>
void put_eval(const smooth::Spline<K, G> & s, double t, double *& out)
{
  smooth::Tangent<G> vel, acc;
  G g = s(t, vel, acc);
  vm::store(g, out);
  for (int i = 0; i < vel.size(); ++i) *out++ = vel(i);
  for (int i = 0; i < acc.size(); ++i) *out++ = acc(i);
}
template<int K, typename G, int N>
void eval(const double * in, double * out)
{
  const double * rest;
  auto s = smooth_verif_access::make<K, G>(in, N, &rest);
  put_eval(s, rest[0], out);
  *out++ = s.t_max();
}
// extra = [ta, tb, s]
template<int K, typename G, int N, bool LOC>
void crop(const double * in, double * out)
{
  const double * rest;
  const auto x = smooth_verif_access::make<K, G>(in, N, &rest);
  const double ta = rest[0], tb = rest[1], sv = rest[2];
  auto y = x.crop(ta, tb, LOC);
  put_eval(y, sv, out);
  put_eval(x, ta + sv, out);
  vm::store(x(ta), out);
  *out++ = y.t_max();
  *out++ = static_cast<double>(y.size());
}
template<int K, typename G>
void cv(const double * in, double * out)
{
  constexpr int R = vm::rep_of<G>(), D = smooth::Dof<G>;
  smooth::Tangent<G> v;
  for (int c = 0; c < D; ++c) v(c) = in[1 + c];
  auto s = smooth::Spline<K, G>::ConstantVelocity(v, in[0], vm::load<G>(in + 1 + D));
  put_eval(s, in[1 + D + R], out);
  *out++ = s.t_max();
}
// in = [gb | va | vb | T | ga]
template<typename G>
void fixedcubic(const double * in, double * out)
{
  constexpr int R = vm::rep_of<G>(), D = smooth::Dof<G>;
  smooth::Tangent<G> va, vb;
  for (int c = 0; c < D; ++c) { va(c) = in[R + c]; vb(c) = in[R + D + c]; }
  const double T = in[R + 2 * D];
  auto s = smooth::Spline<3, G>::FixedCubic(vm::load<G>(in), va, vb, T, vm::load<G>(in + R + 2 * D + 1));
  put_eval(s, 0., out);
  put_eval(s, T, out);
}
// in = [state1 (N1) | state2 (N2) | t]
template<int K, typename G, int N1, int N2, bool LOCAL>
void concat(const double * in, double * out)
{
  const double *r1, *r2;
  auto a = smooth_verif_access::make<K, G>(in, N1, &r1);
  const auto b = smooth_verif_access::make<K, G>(r1, N2, &r2);
  const auto a0 = a;
  if constexpr (LOCAL) a += b; else a.concat_global(b);
  put_eval(a, r2[0], out);
  put_eval(a0, r2[0], out);
  put_eval(b, r2[0] - a0.t_max(), out);
  vm::store(a0.end(), out);
  *out++ = a.t_max();
  *out++ = static_cast<double>(a.size());
  vm::store(a.end(), out);
  vm::store(b.end(), out);
  vm::store(b.start(), out);
}
template<typename G, int N>
void arclength(const double * in, double * out)
{
  const double * rest;
  const auto x = smooth_verif_access::make<3, G>(in, N, &rest);
  auto a = x.arclength(rest[0]);
  for (int i = 0; i < a.size(); ++i) *out++ = a(i);
}
}  // namespace vspline
