// optimiser harness (C09, C10)
#pragma once
#include "vh.hpp"
#include <smooth/optim/tr_solver.hpp>
#include <smooth/detail/math.hpp>
#include <smooth/optim.hpp>
namespace vopt {
// in = [J (R x C row-major) | d (C) | r (R) | lambda]; out = [dx (C) | dphi]
template<int R, int C, int MODE>  // MODE 0 static dense, 1 dynamic dense, 2 sparse (column-major), 3 sparse row-major, 4 dynamic dense row-major
void ldlt(const double * in, double * out)
{
  Eigen::Matrix<double, R, C> Jd;
  for (int i = 0; i < R; ++i) for (int j = 0; j < C; ++j) Jd(i, j) = in[i * C + j];
  Eigen::Matrix<double, C, 1> d;
  for (int j = 0; j < C; ++j) d(j) = in[R * C + j];
  Eigen::Matrix<double, R, 1> r;
  for (int i = 0; i < R; ++i) r(i) = in[R * C + C + i];
  const double lambda = in[R * C + C + R];
  double dphi = 0;
  if constexpr (MODE == 0) {
    auto dx = smooth::solve_linear_ldlt(Jd, d, r, lambda, dphi);
    for (int j = 0; j < C; ++j) *out++ = dx(j);
  } else if constexpr (MODE == 1) {
    Eigen::MatrixXd J = Jd; Eigen::VectorXd dd = d, rr = r;
    auto dx = smooth::solve_linear_ldlt(J, dd, rr, lambda, dphi);
    for (int j = 0; j < C; ++j) *out++ = dx(j);
  } else if constexpr (MODE == 3) {
    Eigen::SparseMatrix<double, Eigen::RowMajor> J(R, C);
    for (int i = 0; i < R; ++i) for (int j = 0; j < C; ++j) J.insert(i, j) = Jd(i, j);
    J.makeCompressed();
    Eigen::VectorXd dd = d, rr = r;
    auto dx = smooth::solve_linear_ldlt(J, dd, rr, lambda, dphi);
    for (int j = 0; j < C; ++j) *out++ = dx(j);
  } else if constexpr (MODE == 4) {
    Eigen::Matrix<double, -1, -1, Eigen::RowMajor> J = Jd; Eigen::VectorXd dd = d, rr = r;
    auto dx = smooth::solve_linear_ldlt(J, dd, rr, lambda, dphi);
    for (int j = 0; j < C; ++j) *out++ = dx(j);
  } else {
    Eigen::SparseMatrix<double> J(R, C);
    for (int i = 0; i < R; ++i) for (int j = 0; j < C; ++j) J.insert(i, j) = Jd(i, j);
    J.makeCompressed();
    Eigen::VectorXd dd = d, rr = r;
    auto dx = smooth::solve_linear_ldlt(J, dd, rr, lambda, dphi);
    for (int j = 0; j < C; ++j) *out++ = dx(j);
  }
  *out++ = dphi;
}
// in = [J | d | r | Delta]; out = [dx | lambda]
template<int R, int C>
void trust(const double * in, double * out)
{
  Eigen::Matrix<double, R, C> J;
  for (int i = 0; i < R; ++i) for (int j = 0; j < C; ++j) J(i, j) = in[i * C + j];
  Eigen::Matrix<double, C, 1> d;
  for (int j = 0; j < C; ++j) d(j) = in[R * C + j];
  Eigen::Matrix<double, R, 1> r;
  for (int i = 0; i < R; ++i) r(i) = in[R * C + C + i];
  auto [dx, lam] = smooth::solve_trust_region(J, d, r, in[R * C + C + R]);
  for (int j = 0; j < C; ++j) *out++ = dx(j);
  *out++ = lam;
}
template<int R, int C, bool SPARSE>
void colnorm(const double * in, double * out)
{
  Eigen::Matrix<double, R, C> Jd;
  for (int i = 0; i < R; ++i) for (int j = 0; j < C; ++j) Jd(i, j) = in[i * C + j];
  if constexpr (SPARSE) {
    Eigen::SparseMatrix<double> J(R, C);
    for (int i = 0; i < R; ++i) for (int j = 0; j < C; ++j) J.insert(i, j) = Jd(i, j);
    J.makeCompressed();
    auto n = smooth::colwise_norm(J);
    for (int j = 0; j < C; ++j) *out++ = n(j);
  } else {
    auto n = smooth::colwise_norm(Jd);
    for (int j = 0; j < C; ++j) *out++ = n(j);
  }
}
}  // namespace vopt

// ---- minimize with an UNINTERPRETED residual (C09): F_i and its derivative are external functions that symx replaces by
// uninterpreted symbols, so "for any residual function" is literally the quantifier.  The native build links the
// definitions below (a concrete smooth family) only for differential validation.
extern "C" double UF_F0(double x);
extern "C" double UF_F1(double x);
extern "C" double UF_J0(double x);
extern "C" double UF_J1(double x);
#ifdef VOPT_NATIVE_UF
// residual used by the native twin: P0 + P1 x + P2 x^2 + P3 x^3 + P4 atan(x) (default x^2 - 2), settable per call so that a solver
// model of the uninterpreted residual can be realised by a concrete function and replayed against the real minimize
static double VOPT_P[5] = {-2.0, 0.0, 1.0, 0.0, 0.0};
extern "C" double UF_F0(double x) { return VOPT_P[0] + VOPT_P[1] * x + VOPT_P[2] * x * x + VOPT_P[3] * x * x * x + VOPT_P[4] * std::atan(x); }
extern "C" double UF_F1(double x) { return 0.5 * x + 1.0; }
extern "C" double UF_J0(double x) { return VOPT_P[1] + 2.0 * VOPT_P[2] * x + 3.0 * VOPT_P[3] * x * x + VOPT_P[4] / (1.0 + x * x); }
extern "C" double UF_J1(double) { return 0.5; }
#endif
namespace vopt {
struct Res
{
  Eigen::Vector2d operator()(const double & x) const { return Eigen::Vector2d(UF_F0(x), UF_F1(x)); }
  Eigen::Matrix<double, 2, 1> jacobian(const double & x) const { return Eigen::Matrix<double, 2, 1>(UF_J0(x), UF_J1(x)); }
};
// in = [x0 | max_iter | strategy (0 ceres, 1 disney) | ftol | ptol]; out = [status | iter | x_final | ncallbacks | (x_k, cost_k) for k < 6]
inline void minimize1(const double * in, double * out)
{
  double x = in[0];
  smooth::MinimizeOptions opts;
  opts.max_iter = static_cast<std::size_t>(in[1]);
  if (in[2] > 0.5) opts.strat = std::make_shared<smooth::DisneyStrategy>();
  opts.ftol = in[3];
  opts.ptol = in[4];
  double rec[12];
  for (int i = 0; i < 12; ++i) rec[i] = 0;
  int ncb = 0;
  Res f;
  auto cb = [&](const double & xk) {
    if (ncb < 6) { rec[2 * ncb] = xk; const auto r = f(xk); rec[2 * ncb + 1] = r.squaredNorm(); }
    ++ncb;
  };
  const auto res = smooth::minimize<smooth::diff::Type::Analytic>(f, smooth::wrt(x), cb, opts);
  *out++ = static_cast<double>(static_cast<int>(res.status));
  *out++ = static_cast<double>(res.iter);
  *out++ = x;
  *out++ = static_cast<double>(ncb);
  for (int i = 0; i < 12; ++i) *out++ = rec[i];
}
}  // namespace vopt
extern "C" void opt_minimize1(const double * i, double * o) { vopt::minimize1(i, o); }
namespace vopt {
// scalar residual R -> R^1 (keeps Eigen's stableNorm to one |.| per call)
struct Res1
{
  Eigen::Matrix<double, 1, 1> operator()(const double & x) const { return Eigen::Matrix<double, 1, 1>(UF_F0(x)); }
  Eigen::Matrix<double, 1, 1> jacobian(const double & x) const { return Eigen::Matrix<double, 1, 1>(UF_J0(x)); }
};
inline void minimize0(const double * in, double * out)
{
  double x = in[0];
  smooth::MinimizeOptions opts;
  opts.max_iter = static_cast<std::size_t>(in[1]);
  if (in[2] > 0.5) opts.strat = std::make_shared<smooth::DisneyStrategy>();
  opts.ftol = in[3];
  opts.ptol = in[4];
  double rec[12];
  for (int i = 0; i < 12; ++i) rec[i] = 0;
  int ncb = 0;
  Res1 f;
  auto cb = [&](const double & xk) {
    if (ncb < 6) { rec[2 * ncb] = xk; const auto r = f(xk); rec[2 * ncb + 1] = r.squaredNorm(); }
    ++ncb;
  };
  const auto res = smooth::minimize<smooth::diff::Type::Analytic>(f, smooth::wrt(x), cb, opts);
  *out++ = static_cast<double>(static_cast<int>(res.status));
  *out++ = static_cast<double>(res.iter);
  *out++ = x;
  *out++ = static_cast<double>(ncb);
  for (int i = 0; i < 12; ++i) *out++ = rec[i];
}
}  // namespace vopt
extern "C" void opt_minimize0(const double * i, double * o) { vopt::minimize0(i, o); }
#ifdef VOPT_NATIVE_UF
// in = [x0 | max_iter | strategy | ftol | ptol | P0..P4]
extern "C" void opt_minimize0p(const double * i, double * o)
{
  for (int k = 0; k < 5; ++k) VOPT_P[k] = i[5 + k];
  vopt::minimize0(i, o);
}
#endif
