// Manifold harness (C07/C18): wrappers around traits::man<> models.  The overlay copy of submanifold.hpp
// (typename fix for clang-14) must be seen first, so this header includes the manifold headers one by one.
#pragma once
#include "vh.hpp"
#include <smooth/manifolds/submanifold.hpp>
#include <smooth/manifolds/any.hpp>
#include <smooth/manifolds/vector.hpp>
#include <smooth/manifolds/variant.hpp>
#include <variant>
#include <vector>

namespace vm {
using vh::put;

template<typename M> constexpr int rep_of() { if constexpr (std::is_arithmetic_v<M>) return 1; else if constexpr (smooth::RnType<M>) return M::SizeAtCompileTime; else return M::RepSize; }

template<typename M>
M load(const double * p, int n = -1)
{
  if constexpr (std::is_arithmetic_v<M>) {
    return p[0];
  } else if constexpr (smooth::RnType<M>) {
    M v(n < 0 ? M::SizeAtCompileTime : n);
    for (int i = 0; i < v.size(); ++i) v(i) = p[i];
    return v;
  } else {
    M g;
    for (int i = 0; i < M::RepSize; ++i) g.coeffs()(i) = p[i];
    return g;
  }
}

template<typename M>
void store(const M & m, double *& o)
{
  if constexpr (std::is_arithmetic_v<M>) {
    *o++ = m;
  } else if constexpr (smooth::RnType<M>) {
    for (int i = 0; i < m.size(); ++i) *o++ = m(i);
  } else {
    for (int i = 0; i < M::RepSize; ++i) *o++ = m.coeffs()(i);
  }
}

template<typename V>
Eigen::VectorXd tang(const double * p, int n)
{
  Eigen::VectorXd a(n);
  for (int i = 0; i < n; ++i) a(i) = p[i];
  return a;
}

// ---- Lie group as manifold
template<typename G>
void rpm(const double * in, double * out)  // rminus(rplus(m,a), m)
{
  G m = load<G>(in);
  Eigen::Matrix<double, smooth::Dof<G>, 1> a;
  for (int i = 0; i < smooth::Dof<G>; ++i) a(i) = in[rep_of<G>() + i];
  auto r = smooth::rminus(smooth::rplus(m, a), m);
  for (int i = 0; i < r.size(); ++i) *out++ = r(i);
}
template<typename G>
void rmp(const double * in, double * out)  // rplus(m, rminus(m2, m))
{
  G m = load<G>(in), m2 = load<G>(in + rep_of<G>());
  store(smooth::rplus(m, smooth::rminus(m2, m)), out);
}
template<typename G>
void rself(const double * in, double * out)
{
  G m = load<G>(in);
  auto r = smooth::rminus(m, m);
  for (int i = 0; i < r.size(); ++i) *out++ = r(i);
}

// ---- std::vector<M>, N elements (N may be 0); out = [dof | elements of rplus | rminus(m, m2)]
template<typename M, int N, int ESZ>
void vec_ops(const double * in, double * out)
{
  constexpr int R = rep_of<M>() > 0 ? rep_of<M>() : ESZ;
  std::vector<M> m, m2;
  for (int i = 0; i < N; ++i) m.push_back(load<M>(in + R * i, ESZ));
  for (int i = 0; i < N; ++i) m2.push_back(load<M>(in + R * (N + i), ESZ));
  const int d = static_cast<int>(smooth::dof(m));
  Eigen::VectorXd a = tang<M>(in + 2 * R * N, d);
  *out++ = d;
  auto p = smooth::rplus(m, a);
  for (const auto & x : p) store(x, out);
  auto r = smooth::rminus(m, m2);
  for (int i = 0; i < r.size(); ++i) *out++ = r(i);
}

// ---- std::vector<VectorXd> whose elements have DIFFERENT run-time sizes (3, 1, 2): tangent segments are consecutive, not i*dof_i
// in = [m (6) | m2 (6) | a (6)] ; out = [dof | rplus elements (6) | rminus (6)]
inline void vec_mixed(const double * in, double * out)
{
  const int sz[3] = {3, 1, 2};
  std::vector<Eigen::VectorXd> m, m2;
  int off = 0;
  for (int i = 0; i < 3; ++i) {
    m.push_back(Eigen::Map<const Eigen::VectorXd>(in + off, sz[i]));
    m2.push_back(Eigen::Map<const Eigen::VectorXd>(in + 6 + off, sz[i]));
    off += sz[i];
  }
  const int d = static_cast<int>(smooth::dof(m));
  Eigen::VectorXd a = Eigen::Map<const Eigen::VectorXd>(in + 12, d);
  *out++ = d;
  auto p = smooth::rplus(m, a);
  for (const auto & x : p) for (int i = 0; i < x.size(); ++i) *out++ = x(i);
  auto r = smooth::rminus(m, m2);
  for (int i = 0; i < r.size(); ++i) *out++ = r(i);
}

// ---- variant
using Var = std::variant<smooth::SO3d, Eigen::Vector2d, double>;
template<int ALT>
void var_ops(const double * in, double * out)
{
  using M = std::variant_alternative_t<ALT, Var>;
  constexpr int R = rep_of<M>();
  Var m = load<M>(in), m2 = load<M>(in + R);
  const int d = static_cast<int>(smooth::dof(m));
  Eigen::VectorXd a = tang<M>(in + 2 * R, d);
  *out++ = d;
  Var p = smooth::rplus(m, a);
  *out++ = static_cast<double>(p.index());
  store(std::get<ALT>(p), out);
  auto r = smooth::rminus(m, m2);
  for (int i = 0; i < r.size(); ++i) *out++ = r(i);
}

// ---- SubManifold<M> with fixed dims given by bit mask
template<typename M, unsigned MASK>
smooth::SubManifold<M> mksub(const M & m0, const M & m)
{
  int n = 0;
  for (int i = 0; i < smooth::Dof<M>; ++i) n += (MASK >> i) & 1;
  Eigen::VectorXi f(n);
  for (int i = 0, k = 0; i < smooth::Dof<M>; ++i) if ((MASK >> i) & 1) f(k++) = i;
  return smooth::SubManifold<M>(m0, m, f);
}
// in = [m0 | m | m2 | a(free)], out = [dof | m0' m' of rplus | rminus(sub(m0,m), sub(m0,m2)) | m0'' m'' of cast<double> | m0 m of a copy taken before mutation]
template<typename M, unsigned MASK>
void sub_ops(const double * in, double * out)
{
  constexpr int R = rep_of<M>();
  const M m0 = load<M>(in), m = load<M>(in + R), m2 = load<M>(in + 2 * R);
  auto x = mksub<M, MASK>(m0, m), y = mksub<M, MASK>(m0, m2);
  const int d = static_cast<int>(smooth::dof(x));
  Eigen::VectorXd a = tang<M>(in + 3 * R, d);
  *out++ = d;
  auto p = smooth::rplus(x, a);
  store(p.m0(), out);
  store(p.m(), out);
  auto r = smooth::rminus(x, y);
  for (int i = 0; i < r.size(); ++i) *out++ = r(i);
  auto c = smooth::cast<double>(x);
  store(c.m0(), out);
  store(c.m(), out);
  auto cp = x;             // copy
  x = y;                   // mutate the original
  store(cp.m0(), out);
  store(cp.m(), out);
}

// ---- AnyManifold holding an M.  out = [dof | rplus value | rminus | copy value after the original was reassigned]
template<typename M>
void any_ops(const double * in, double * out)
{
  constexpr int R = rep_of<M>();
  smooth::AnyManifold x(load<M>(in)), y(load<M>(in + R));
  const int d = static_cast<int>(smooth::dof(x));
  Eigen::VectorXd a = tang<M>(in + 2 * R, d);
  *out++ = d;
  smooth::AnyManifold p = smooth::rplus(x, a);
  store(p.template get<M>(), out);
  Eigen::VectorXd r = smooth::rminus(x, y);
  for (int i = 0; i < r.size(); ++i) *out++ = r(i);
  smooth::AnyManifold cp = x;  // clone
  x = y;                       // reassign original
  x.template get<M>() = load<M>(in + R);
  store(cp.template get<M>(), out);
}
// ---- AnyManifold holding a value whose dof is only known at run time (VectorXd of size 3, std::vector<SO3> of size 2)
// out = [dof(any) | dof of the wrapped value | rplus value | rminus]
inline void any_dyn_vx(const double * in, double * out)
{
  Eigen::VectorXd v = Eigen::Map<const Eigen::VectorXd>(in, 3), w = Eigen::Map<const Eigen::VectorXd>(in + 3, 3);
  smooth::AnyManifold x(v), y(w);
  *out++ = static_cast<double>(smooth::dof(x));
  *out++ = static_cast<double>(smooth::dof(v));
  Eigen::VectorXd a = Eigen::Map<const Eigen::VectorXd>(in + 6, 3);
  smooth::AnyManifold p = smooth::rplus(x, a);
  const auto & pv = p.get<Eigen::VectorXd>();
  for (int i = 0; i < 3; ++i) *out++ = pv(i);
  Eigen::VectorXd r = smooth::rminus(x, y);
  *out++ = static_cast<double>(r.size());
  for (int i = 0; i < 3; ++i) *out++ = r(i);
}
inline void any_dyn_vec(const double * in, double * out)
{
  std::vector<smooth::SO3d> v{load<smooth::SO3d>(in), load<smooth::SO3d>(in + 4)};
  smooth::AnyManifold x(v);
  *out++ = static_cast<double>(smooth::dof(x));
  *out++ = static_cast<double>(smooth::dof(v));
  smooth::AnyManifold cp = x;
  *out++ = static_cast<double>(smooth::dof(cp));
}
}  // namespace vm
