import sys, os, importlib


def main():
    a = sys.argv[1:]
    if not a:
        print("usage: run <ID> [--tier quick|thorough] [--replay path]")
        return 2
    pid = a[0]
    tier = os.environ.get("VERIF_TIER", "quick")
    replay = None
    i = 1
    while i < len(a):
        if a[i] == "--tier":
            tier = a[i + 1]
            i += 2
        elif a[i] == "--replay":
            replay = a[i + 1]
            i += 2
        else:
            i += 1
    if replay:
        from symx import check
        return check.replay_file(replay)
    mod = importlib.import_module("checks." + pid.lower())
    rc = mod.main(tier)
    from symx import build
    build.prune_cache()
    return rc


if __name__ == "__main__":
    sys.exit(main())
