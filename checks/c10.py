"""C10: the trust-region step solver returns the regularised least-squares minimiser (DESIGN 4/C10)."""
import random
from fractions import Fraction
from symx import terms as T, groups as G, check, solver, engine
from symx.interp import Cond

PID = "C10"


def cfgs(tier):
    # (rows, cols, storage); storage 3 = row-major sparse, 4 = row-major dynamic dense.  WIDE shapes (rows < cols) separate "number of
    # unknowns" from every other extent of J (outerSize of a row-major matrix is its number of ROWS)
    c = [(2, 1, 0), (2, 1, 1), (2, 1, 2), (3, 1, 2), (1, 2, 3), (2, 1, 3)]   # (1,2,4) row-major dense: > 15 min (probed), outside
    if tier == "thorough":
        c += [(2, 2, 0), (2, 2, 1), (2, 2, 2), (4, 1, 0), (4, 1, 2)]   # 3x2 and 3x3 with symbolic pivoting exceed 15 min per configuration (probed): outside
    return c


def tu_text(cf):
    L = ['#include "vopt.hpp"']
    for (R, C, M) in cf:
        L.append('extern "C" void ldlt_%d_%d_%d(const double* i, double* o){ vopt::ldlt<%d,%d,%d>(i,o);}' % (R, C, M, R, C, M))
    L.append('extern "C" void trust_2_1(const double* i, double* o){ vopt::trust<2,1>(i,o);}')
    L.append('extern "C" void trust_2_2(const double* i, double* o){ vopt::trust<2,2>(i,o);}')
    for sp in (0, 1):
        L.append('extern "C" void cn_3_2_%d(const double* i, double* o){ vopt::colnorm<3,2,%s>(i,o);}' % (sp, "true" if sp else "false"))
    return "\n".join(L) + "\n"


def setup_syms(R, C):
    J = [G.syms("J%d_" % i, C) for i in range(R)]
    d = G.syms("d", C)
    r = G.syms("r", R)
    return J, d, r


def normal_eq(J, d, r, lam, dx, R, C):
    out = []
    for j in range(C):
        lhs = T.Add(G.sum_terms([T.Mul(G.sum_terms([T.Mul(J[i][j], J[i][k]) for i in range(R)]), dx[k]) for k in range(C)]),
                    T.Add(T.Mul(T.Mul(lam, T.Mul(d[j], d[j])), dx[j]), G.sum_terms([T.Mul(J[i][j], r[i]) for i in range(R)])))
        out.append(("normal-eq%d" % j, lhs, T.Const(0)))
    return out


def job_ldlt(cf, cfall, tier):
    R, C, M = cf
    T.reset_terms()
    res = check.Result()
    h = check.Harness("optim_" + tier, tu_text(cfall), extra=("-DVOPT_NATIVE_UF",))
    J, d, r = setup_syms(R, C)
    lam = T.Sym("lam")
    ins = [x for row in J for x in row] + d + r + [lam]
    asm = [(Cond("cmp", x, T.Const(Fraction(1, 10**6)), "oge"), True) for x in d + [lam]] + [(Cond("cmp", lam, T.Const(10**6), "ole"), True)]
    fn = "ldlt_%d_%d_%d" % (R, C, M)
    key = "solve_linear_ldlt/%dx%d/%s" % (R, C, ["static", "dynamic", "sparse", "sparse-rowmajor", "dynamic-rowmajor"][M])

    def sampler(k):
        rr = random.Random(k)
        Jv = [rr.uniform(-2, 2) for _ in range(R * C)]
        if k % 4 == 0 and C > 1:   # rank deficient
            for i in range(R):
                Jv[i * C + 1] = 2 * Jv[i * C]
        return Jv + [rr.uniform(0.5, 2) for _ in range(C)] + [rr.uniform(-2, 2) for _ in range(R)] + [rr.choice([1e-3, 0.5, 7.0])]

    def obligations(ins_, o):
        dx = o[:C]
        obl = normal_eq(J, d, r, lam, dx, R, C)
        # descent certificate  |r|^2 - |J dx + r|^2 = |J dx|^2 + 2 lam |D dx|^2  (>= 0)
        Jdx = [G.sum_terms([T.Mul(J[i][k], dx[k]) for k in range(C)]) for i in range(R)]
        s = [T.Add(a, b) for a, b in zip(Jdx, r)]
        lhs = T.Sub(G.dot(r, r), G.dot(s, s))
        Ddx = [T.Mul(d[k], dx[k]) for k in range(C)]
        rhs = T.Add(G.dot(Jdx, Jdx), T.Mul(T.Mul(T.Const(2), lam), G.dot(Ddx, Ddx)))
        obl.append(("descent-certificate", lhs, rhs))
        return obl
    paths = check.check_wrapper(res, h, fn, ins, C + 1, None, key, obligations=obligations, assumptions=asm, tol=1e-8, pid=PID, sampler=sampler,
                                max_paths=400, nvalidate=8, timeout_ms=20000)
    # dphi = d/dlambda | D dx(lambda) |  : symbolic derivative of the path's own (verified) dx
    for pi, p in enumerate(paths):
        if p.status != "ok":
            continue
        dx = p.outs[:C]
        Ddx = [T.Mul(d[k], dx[k]) for k in range(C)]
        nrm2 = G.dot(Ddx, Ddx)
        lhs2 = T.Mul(T.Mul(p.outs[C], p.outs[C]), nrm2)
        half = T.Mul(T.Const(Fraction(1, 2)), T.diff(nrm2, "lam"))
        rhs2 = T.Mul(half, half)
        try:
            with T.time_budget(30):
                v = solver.check_identity(T.nf(T.Sub(lhs2, rhs2)), pc=p.pc, assumptions=asm, timeout_ms=20000)
        except (T.PolyTooBig, MemoryError):
            v = solver.Verdict("undecided", "budget")
        name = "%s/path%d/dphi" % (key, pi)
        if v.status == "holds":
            res.add(name, v)
        else:
            res.add_raw(name, "undecided", v.how, v.dt)
    res.axioms.add("|J dx + r| <= |r| follows from the certificate |r|^2-|Jdx+r|^2 = |Jdx|^2 + 2 lam |D dx|^2, itself an identity under the normal equations")
    res.axioms.add("dphi decided through dphi^2 |D dx|^2 = (1/2 d/dlam |D dx|^2)^2 with dx(lambda) the path's own verified solution (sign is a corollary of positive definiteness)")
    return res


def job_trust(C, cfall, tier):
    T.reset_terms()
    res = check.Result()
    h = check.Harness("optim_" + tier, tu_text(cfall), extra=("-DVOPT_NATIVE_UF",))
    R = 2
    J, d, r = setup_syms(R, C)
    Dl = T.Sym("Delta")
    ins = [x for row in J for x in row] + d + r + [Dl]
    asm = [(Cond("cmp", x, T.Const(Fraction(1, 10**6)), "oge"), True) for x in d + [Dl]] + [(Cond("cmp", Dl, T.Const(10**6), "ole"), True)]

    def obligations(ins_, o):
        lam = T.Div(T.Const(1), Dl)
        return [("lambda=1/Delta", o[C], lam)] + normal_eq(J, d, r, lam, o[:C], R, C)

    def sampler(k):
        rr = random.Random(k)
        return [rr.uniform(-2, 2) for _ in range(R * C)] + [rr.uniform(0.5, 2) for _ in range(C)] + [rr.uniform(-2, 2) for _ in range(R)] + [rr.choice([0.1, 1.0, 30.0])]
    check.check_wrapper(res, h, "trust_2_%d" % C, ins, C + 1, None, "solve_trust_region/2x%d" % C, obligations=obligations, assumptions=asm, tol=1e-8, pid=PID,
                        sampler=sampler, max_paths=400, nvalidate=6, timeout_ms=20000)
    return res


def job_colnorm(sp, cfall, tier):
    T.reset_terms()
    res = check.Result()
    h = check.Harness("optim_" + tier, tu_text(cfall), extra=("-DVOPT_NATIVE_UF",))
    M = G.syms("m", 6)

    def obligations(ins_, o):
        return [("col%d^2" % j, T.Mul(o[j], o[j]), G.sum_terms([T.Mul(M[i * 2 + j], M[i * 2 + j]) for i in range(3)])) for j in range(2)]
    nm = "colwise_norm/%s" % ("sparse" if sp else "dense")
    paths = check.check_wrapper(res, h, "cn_3_2_%d" % sp, M, 2, None, nm, obligations=obligations, tol=1e-12, pid=PID,
                                sampler=lambda k: [random.Random(k * 5 + i).uniform(-2, 2) for i in range(6)], nvalidate=5)
    for p in paths:
        if p.status == "ok":
            ok = all(solver.entails(p.pc, Cond("cmp", p.outs[j], T.Const(0), "oge"), True) for j in range(2))
            res.add_raw(nm + "/nonnegative", "holds" if ok else "undecided", "z3: sqrt axiom")
    return res


def main(tier):
    run = check.Run(PID, tier)
    check.JOB_BUDGET[0] = 400 if tier == "quick" else 1500
    cf = cfgs(tier)
    check.run_jobs([(_compile, (cf, tier))])
    jobs = [(job_ldlt, (c, cf, tier)) for c in cf] + [(job_trust, (1, cf, tier))] + ([(job_trust, (2, cf, tier))] if tier == 'thorough' else []) + [ (job_colnorm, (0, cf, tier)), (job_colnorm, (1, cf, tier))]
    run.extend(check.run_jobs(jobs, timeout=1200 if tier == "quick" else 1800))
    run.bounds += ["(rows, cols, storage 0=static 1=dynamic 2=sparse 3=sparse row-major 4=dynamic row-major): %s ; J, r fully symbolic (rank-deficient J included), d >= 1e-6 (the clamp minimize applies), lambda, Delta in [1e-6, 1e6]" % cf]
    run.assumptions += ["layer R: exact arithmetic; the 1e-8 backward error, the cond<=1e8 dense/sparse agreement and sizes up to 40x40 are floating-point statements outside the claim",
                        "Eigen's pivoting LDLT is executed symbolically: every pivot order is a path"]
    return run.finish()


def _compile(cf, tier):
    check.Harness("optim_" + tier, tu_text(cf), extra=("-DVOPT_NATIVE_UF",))
    return check.Result()
