"""C12: Spline construction, concatenation and cropping preserve the curve (DESIGN 4/C12).

States are built through the guarded friend hook as ARBITRARY representation-invariant states (sorted end times,
0<=T0, 0<Del, T0+Del<=1, end_g consistent), so one operation from such a state is an inductive step that covers histories
of constructors / += / concat_global / crop of any length.  Vector-space groups (double, Vector2d): everything is
polynomial/rational in the symbolic times and control velocities."""
import random, math
from fractions import Fraction
from symx import terms as T, groups as G, check, solver, engine
from symx.interp import Cond
from . import c20, c11

PID = "C12"
TOL = 1e-9
CPP = {"T1": "double", "T2": "Eigen::Vector2d"}


def tu_text(tier):
    L = ['#include "vspline.hpp"']
    for gn in ("T1", "T2"):
        for N in (1, 2, 3):
            L.append('extern "C" void ev_%s_%d(const double* i, double* o){ vspline::eval<3,%s,%d>(i,o);}' % (gn, N, CPP[gn], N))
    for N in (1, 2, 3):
        for loc in (0, 1):
            L.append('extern "C" void crop_%d_%d(const double* i, double* o){ vspline::crop<3,double,%d,%s>(i,o);}' % (N, loc, N, "true" if loc else "false"))
    for K in (1, 2, 3, 4, 5):
        L.append('extern "C" void cv_%d(const double* i, double* o){ vspline::cv<%d,double>(i,o);}' % (K, K))
    L.append('extern "C" void cv2d_3(const double* i, double* o){ vspline::cv<3,Eigen::Vector2d>(i,o);}')
    L.append('extern "C" void fc_T1(const double* i, double* o){ vspline::fixedcubic<double>(i,o);}')
    L.append('extern "C" void fc_T2(const double* i, double* o){ vspline::fixedcubic<Eigen::Vector2d>(i,o);}')
    L.append('extern "C" void fc_SE2(const double* i, double* o){ vspline::fixedcubic<smooth::SE2d>(i,o);}')
    for loc in (0, 1):
        L.append('extern "C" void cat_%d(const double* i, double* o){ vspline::concat<3,double,2,2,%s>(i,o);}' % (loc, "true" if loc else "false"))
    return "\n".join(L) + "\n"


class State:
    """symbolic representation-invariant spline state for a vector group of dimension D, degree K, N segments"""

    def __init__(self, D, K, N, pref=""):
        self.D, self.K, self.N = D, K, N
        S = lambda n: T.Sym(pref + n)
        self.g0 = [S("g0_%d" % c) for c in range(D)]
        self.e = [S("e%d" % i) for i in range(N)]
        self.T0 = [S("T0_%d" % i) for i in range(N)]
        self.Del = [S("Del%d" % i) for i in range(N)]
        self.V = [[[S("v%d_%d_%d" % (i, j, c)) for c in range(D)] for j in range(K)] for i in range(N)]
        self.Bt = c11.cum_basis(K, 0)
        self.end_g = []
        prev = self.g0
        for i in range(N):
            eg = [T.Add(prev[c], T.Sub(self.c(i, T.Add(self.T0[i], self.Del[i]))[c], self.c(i, self.T0[i])[c])) for c in range(D)]
            self.end_g.append(eg)
            prev = eg

    def c(self, i, u, order=0):
        """cumulative curve of segment i at parameter u (vector of D terms), or its u-derivative of given order"""
        out = []
        for c_ in range(self.D):
            acc = T.Const(0)
            for j in range(1, self.K + 1):
                coefs = self.Bt[j]
                for _ in range(order):
                    coefs = [k * coefs[k] for k in range(1, len(coefs))] or [Fraction(0)]
                acc = T.Add(acc, T.Mul(c11.poly_term(coefs, u), self.V[i][j - 1][c_]))
            out.append(acc)
        return out

    def inputs(self):
        ins = list(self.g0)
        for i in range(self.N):
            ins += [self.e[i], self.T0[i], self.Del[i]] + [x for j in range(self.K) for x in self.V[i][j]] + self.end_g[i]
        return ins

    def asm(self):
        a = []
        prev = T.Const(0)
        for i in range(self.N):
            a.append((Cond("cmp", self.e[i], prev, "ogt"), True))
            prev = self.e[i]
            a.append((Cond("cmp", self.T0[i], T.Const(0), "oge"), True))
            a.append((Cond("cmp", self.Del[i], T.Const(0), "ogt"), True))
            a.append((Cond("cmp", T.Add(self.T0[i], self.Del[i]), T.Const(1), "ole"), True))
        return a

    def start_time(self, i):
        return T.Const(0) if i == 0 else self.e[i - 1]

    def eval_oracle(self, t):
        """list of (guard, value[D], vel[D], acc[D]) by region, from the definition"""
        out = []
        Z = [T.Const(0)] * self.D
        out.append(([(Cond("cmp", t, T.Const(0), "olt"), True)], self.g0, Z, Z))
        out.append(([(Cond("cmp", t, self.e[-1], "ogt"), True)], self.end_g[-1], Z, Z))
        for i in range(self.N):
            ta = self.start_time(i)
            Tl = T.Sub(self.e[i], ta)
            u = T.Add(self.T0[i], T.Div(T.Mul(self.Del[i], T.Sub(t, ta)), Tl))
            gprev = self.g0 if i == 0 else self.end_g[i - 1]
            val = [T.Add(gprev[c], T.Sub(self.c(i, u)[c], self.c(i, self.T0[i])[c])) for c in range(self.D)]
            s = T.Div(self.Del[i], Tl)
            vel = [T.Mul(s, x) for x in self.c(i, u, 1)]
            acc = [T.Mul(T.Mul(s, s), x) for x in self.c(i, u, 2)]
            guard = [(Cond("cmp", t, ta, "oge"), True)]
            guard.append((Cond("cmp", t, self.e[i], "ole" if i == self.N - 1 else "olt"), True))
            out.append((guard, val, vel, acc))
        return out

    def sample(self, r):
        """concrete valid state; returns list aligned with inputs() (end_g consistent)"""
        env = {}
        tprev = 0.0
        for i in range(self.N):
            tprev += r.choice([0.5, 1.0, 1.7, 2.3])
            env[self.e[i].args[0]] = tprev
            t0 = r.choice([0.0, 0.0, 0.2, 0.35])
            d = r.choice([1.0 - t0, (1.0 - t0) * 0.6])
            env[self.T0[i].args[0]] = t0
            env[self.Del[i].args[0]] = d
            for j in range(self.K):
                for c in range(self.D):
                    env[self.V[i][j][c].args[0]] = r.uniform(-1, 1)
        for c in range(self.D):
            env[self.g0[c].args[0]] = r.uniform(-1, 1)
        return [float(T.evaluate(x, env)) for x in self.inputs()], env


def job_eval(gn, N, tier):
    T.reset_terms()
    res = check.Result()
    h = check.Harness("spline12", tu_text(tier))
    D = int(gn[1:])
    st = State(D, 3, N)
    t = T.Sym("t")
    ins = st.inputs() + [t]
    names = None
    fn = "ev_%s_%d" % (gn, N)
    key = "eval/%s/N%d" % (gn, N)
    asm = st.asm()
    syms = sorted(set(s for x in ins for s in T.symbols_of(x)))

    def sampler(k):
        r = random.Random(k)
        vals, env = st.sample(r)
        tmax = env[st.e[-1].args[0]]
        knots = [env[e.args[0]] for e in st.e]
        tt = [r.uniform(0, tmax), -0.5, tmax + 1.0, tmax, 0.0][k % 5] if k % 7 else r.choice(knots)
        return vals + [tt]

    def sym_sampler(k):
        # values for the free symbols (used by the witness search which works on symbol names)
        r = random.Random(k)
        vals, env = st.sample(r)
        tmax = env[st.e[-1].args[0]]
        knots = [env[e.args[0]] for e in st.e]
        env["t"] = [r.uniform(0, tmax), -0.5, tmax + 1.0, tmax, 0.0][k % 5] if k % 7 else r.choice(knots)
        return env
    res.functions.add(fn)
    res.validated += h.validate(fn, sampler, 3 * D + 1, 10)
    regions = st.eval_oracle(t)

    def obligations(ins_, outs):
        obl = []
        for ri, (guard, val, vel, acc) in enumerate(regions):
            rn = ["before", "after"][ri] if ri < 2 else "seg%d" % (ri - 2)
            for c in range(D):
                obl.append(("%s/value%d" % (rn, c), outs[c], val[c], guard))
                obl.append(("%s/vel%d" % (rn, c), outs[D + c], vel[c], guard))
                obl.append(("%s/acc%d" % (rn, c), outs[2 * D + c], acc[c], guard))
        obl.append(("t_max", outs[3 * D], st.e[-1]))
        return obl
    wrapper_check(res, h, fn, ins, 3 * D + 1, key, obligations, asm, sym_sampler, max_paths=400 if tier == "quick" else 3000)
    return res


def wrapper_check(res, h, fn, ins, nout, key, obligations, asm, sym_sampler, max_paths=400, tol=TOL * 100, sym_box=None):
    """check_wrapper with inputs that are TERMS over free symbols: the witness search samples the free symbols and evaluates
    the input terms"""
    syms = sorted(set(s for x in ins for s in T.symbols_of(x)))

    class H2:
        """adapter: native() receives values of the free symbols, evaluates the input terms, calls the real wrapper"""
        name, text, extra = h.name, h.text, h.extra

        def native(self, f, symvals, n, fbits=64):
            env = dict(zip(syms, symvals))
            return h.native(f, [float(T.evaluate(x, env)) for x in ins], n, fbits)
    adapter = H2()

    def sampler(k):
        env = sym_sampler(k)
        return [env[s] for s in syms]
    # explore with the real harness, witness through the adapter
    ex = engine.Explorer(h.mod, assumptions=asm, max_paths=max_paths)
    paths = ex.explore(fn, ins, nout)
    res.note_paths(paths, ex)
    if ex.truncated:
        res.notes.append(key + ": path budget exhausted; unexplored paths are outside the claim")
        res.bounds.add(key + ": at most %d paths explored" % max_paths)
    ph = check.out_placeholders(nout)
    obl_full = obligations(ins, ph)
    guards = {o[0]: list(o[3]) for o in obl_full if len(o) > 3}
    obl = [(o[0], o[1], o[2]) for o in obl_full]
    gfeas = solver.Feasibility(list(asm), 2000)
    nok = 0
    for pi, p in enumerate(paths):
        pk = "%s/path%d" % (key, pi)
        if p.status == "memerror":
            res.add_raw(pk + "/memory", "violated", p.reason)
            res.violations.append({"key": key + "/memory", "what": "%s: %s on path [%s]" % (key, p.reason, p.pc_str()[:200])})
            continue
        if p.status != "ok":
            if p.status == "unsupported":
                res.errors.append(pk + ": " + p.reason)
            else:
                res.add_raw(pk, "undecided", "%s: %s" % (p.status, p.reason))
            continue
        nok += 1
        sub = {"out!%d" % k: p.outs[k] for k in range(nout)}
        gcache = {}
        for name, lhs, rhs in obl:
            gd = guards.get(name, [])
            gk = tuple(id(c) for c, _ in gd)
            if gd:
                if gk not in gcache:
                    okg = True
                    pcs = list(p.pc)
                    for c, pol in gd:
                        if gfeas(pcs, c, pol) is False:
                            okg = False
                            break
                        pcs.append((c, pol))
                    gcache[gk] = okg
                if not gcache[gk]:
                    continue
            oname = "%s/%s" % (pk, name)
            try:
                with T.time_budget(12), T.poly_budget(60000):
                    v = solver.check_identity(T.nf(T.Sub(T.substitute(lhs, sub), T.substitute(rhs, sub))), pc=list(p.pc) + gd, assumptions=asm, timeout_ms=10000)
                    if v.status != "holds" and sym_box is not None:
                        # constants with compile-time rounding: decide the tolerance on a box instead of exact equality
                        num, den = T.nf(T.Sub(T.substitute(lhs, sub), T.substitute(rhs, sub)))
                        box = solver.box_for([num, den], sym_box)
                        if box is not None:
                            vb = solver.check_bound(num, box, Fraction(1, 10**9), den_poly=None if T.p_is_const(den) else den, max_split=6)
                            if vb.status == "holds":
                                vb.how = "equal up to compile-time rounding of basis constants on the stated box: " + vb.how
                                v = vb
            except (T.PolyTooBig, MemoryError):
                v = solver.Verdict("undecided", "normal form too large / time budget")
            if v.status == "holds":
                res.add(oname, v)
                continue
            w = check.find_witness(adapter, fn, syms, nout, p, obl, name, tol, sampler, None, guard=list(gd) + list(asm) + list(p.pc), ntry=120)
            if w is None:
                w = check.find_witness(adapter, fn, syms, nout, p, obl, name, tol, sampler, None, guard=list(gd) + list(asm), ntry=120)
            if w is not None:
                v.status = "violated"
                res.add(oname, v)
                vkey = "%s/%s" % (key, name)
                if not any(x["key"] == vkey for x in res.violations):
                    w["inputs_symbols"] = dict(zip(syms, w["inputs"]))
                    w["inputs"] = [float(T.evaluate(x, dict(zip(syms, w["inputs"])))) for x in ins]
                    res.violations.append({"key": vkey, "what": "%s %s: native result %s, definition %s (err %.3g) at %s" % (fn, name, w["lhs"][:12], w["rhs"][:12], w["err"],
                                                                                                                   {k_: round(v_, 4) for k_, v_ in w["inputs_symbols"].items()}),
                                           "replay": dict(w, property=PID, key=vkey, tu_name=h.name, tu_text=h.text, extra=list(h.extra), fn=fn, nout=nout, tol=tol)})
            else:
                res.add_raw(oname, "undecided", v.how + " ; not reproduced natively", v.dt)
    if not nok:
        res.errors.append(key + ": vacuous")


def job_crop(N, loc, tier):
    T.reset_terms()
    res = check.Result()
    h = check.Harness("spline12", tu_text(tier))
    st = State(1, 3, N)
    ta, tb, s = T.Sym("ta"), T.Sym("tb"), T.Sym("s")
    ins = st.inputs() + [ta, tb, s]
    fn = "crop_%d_%d" % (N, loc)
    key = "crop/N%d/%s" % (N, "localized" if loc else "global")
    asm = st.asm() + [(Cond("cmp", ta, T.Const(0), "oge"), True), (Cond("cmp", tb, ta, "ogt"), True), (Cond("cmp", tb, st.e[-1], "ole"), True),
                      (Cond("cmp", s, T.Const(0), "oge"), True), (Cond("cmp", s, T.Sub(tb, ta), "ole"), True)]

    def sym_sampler(k):
        r = random.Random(k)
        vals, env = st.sample(r)
        tmax = env[st.e[-1].args[0]]
        knots = [0.0] + [env[e.args[0]] for e in st.e]
        a = r.uniform(0, tmax * 0.9) if k % 3 else r.choice(knots[:-1])
        b = r.uniform(a + 1e-3, tmax) if k % 4 else tmax
        env["ta"], env["tb"] = a, b
        env["s"] = r.choice([0.0, b - a, r.uniform(0, b - a)])
        return env

    def sampler(k):
        env = sym_sampler(k)
        return [float(T.evaluate(x, env)) for x in ins]
    res.functions.add(fn)
    res.validated += h.validate(fn, sampler, 9, 10)

    def obligations(ins_, o):
        obl = []
        if loc:
            obl.append(("value", o[0], T.Sub(o[3], o[6])))
        else:
            obl.append(("value", o[0], o[3]))
        obl.append(("vel", o[1], o[4]))
        obl.append(("acc", o[2], o[5]))
        obl.append(("t_max", o[7], T.Sub(tb, ta)))
        return obl
    wrapper_check(res, h, fn, ins, 9, key, obligations, asm, sym_sampler, max_paths=300 if tier == "quick" else 4000)
    res.axioms.add("crop compared with the real operator() of the uncropped spline evaluated at ta+s and ta (operator() itself is decided against the definition in eval/*)")
    return res


def job_cv(K, tier):
    T.reset_terms()
    res = check.Result()
    h = check.Harness("spline12", tu_text(tier))
    Tt, v, ga, t = [T.Sym(n) for n in ("T", "v", "ga", "t")]
    ins = [Tt, v, ga, t]
    asm = [(Cond("cmp", Tt, T.Const(0), "ogt"), True)]
    fn = "cv_%d" % K
    key = "ConstantVelocity/K%d" % K

    def sym_sampler(k):
        r = random.Random(k)
        TT = r.choice([0.5, 1.0, 3.0])
        return {"T": TT, "v": r.uniform(-2, 2), "ga": r.uniform(-1, 1), "t": r.choice([0.0, TT, r.uniform(0, TT)])}
    res.functions.add(fn)
    res.validated += h.validate(fn, lambda k: [sym_sampler(k)[n] for n in ("T", "v", "ga", "t")], 4, 6)
    inside = [(Cond("cmp", t, T.Const(0), "oge"), True), (Cond("cmp", t, Tt, "ole"), True)]

    def obligations(ins_, o):
        return [("value", o[0], T.Add(ga, T.Mul(t, v)), inside), ("vel", o[1], v, inside), ("acc", o[2], T.Const(0), inside), ("t_max", o[3], Tt)]
    wrapper_check(res, h, fn, ins, 4, key, obligations, asm, sym_sampler)
    return res


def job_fc(gn, tier):
    T.reset_terms()
    res = check.Result()
    h = check.Harness("spline12", tu_text(tier))
    D = int(gn[1:])
    gb, va, vb, ga = G.syms("gb", D), G.syms("va", D), G.syms("vb", D), G.syms("ga", D)
    Tt = T.Sym("T")
    ins = gb + va + vb + [Tt] + ga
    asm = [(Cond("cmp", Tt, T.Const(0), "ogt"), True)]
    fn = "fc_" + gn

    def sym_sampler(k):
        r = random.Random(k)
        env = {x.args[0]: r.uniform(-1, 1) for x in gb + va + vb + ga}
        env["T"] = r.choice([0.5, 1.0, 2.5])
        return env
    res.functions.add(fn)
    res.validated += h.validate(fn, lambda k: [sym_sampler(k)[x.args[0]] for x in ins], 6 * D, 5)

    def obligations(ins_, o):
        obl = []
        for c in range(D):
            obl += [("start/value%d" % c, o[c], ga[c]), ("start/vel%d" % c, o[D + c], va[c]), ("end/value%d" % c, o[3 * D + c], gb[c]), ("end/vel%d" % c, o[4 * D + c], vb[c])]
        return obl
    wrapper_check(res, h, fn, ins, 6 * D, "FixedCubic/" + gn, obligations, asm, sym_sampler)
    return res


FC_ROT = [((Fraction(3, 5), Fraction(4, 5)), (Fraction(5, 13), Fraction(12, 13)), Fraction(3, 10), Fraction(-1, 5)),
          ((Fraction(-4, 5), Fraction(3, 5)), (Fraction(7, 25), Fraction(-24, 25)), Fraction(0), Fraction(1, 2))]


def job_fc_se2(cfg, tier):
    """FixedCubic on a NON-commutative group (SE2) with a non-identity start pose: start/end pose and velocities.  Rotational data
    (the two rotations as rational (sin, cos) pairs and the angular end velocities) are fixed to stated values, T = 2; all translations and
    translational velocities are symbolic, so every output is an affine form in them and the end conditions are decided on a box up to the
    rounding of the transcendental constants."""
    T.reset_terms()
    res = check.Result()
    h = check.Harness("spline12", tu_text(tier))
    (sa, ca), (sb, cb), wa, wb = FC_ROT[cfg]
    xa, ya, xb, yb, vax, vay, vbx, vby = [T.Sym(n) for n in ("xa", "ya", "xb", "yb", "vax", "vay", "vbx", "vby")]
    gb = [xb, yb, T.Const(sb), T.Const(cb)]
    ga = [xa, ya, T.Const(sa), T.Const(ca)]
    va = [vax, vay, T.Const(wa)]
    vb = [vbx, vby, T.Const(wb)]
    ins = gb + va + vb + [T.Const(2)] + ga
    fn = "fc_SE2"
    key = "FixedCubic/SE2/rot%d" % cfg

    def sym_sampler(k):
        r = random.Random(k)
        return {n: r.uniform(-2, 2) for n in ("xa", "ya", "xb", "yb", "vax", "vay", "vbx", "vby")}
    res.functions.add(fn)
    res.validated += h.validate(fn, lambda k: [float(T.evaluate(x, sym_sampler(k))) for x in ins], 20, 4)

    def obligations(ins_, o):
        obl = []
        for c in range(4):
            obl.append(("start/pose%d" % c, o[c], ga[c]))
            obl.append(("end/pose%d" % c, o[10 + c], gb[c]))
        for c in range(3):
            obl.append(("start/vel%d" % c, o[4 + c], va[c]))
            obl.append(("end/vel%d" % c, o[14 + c], vb[c]))
        return obl
    wrapper_check(res, h, fn, ins, 20, key, obligations, [], sym_sampler, tol=1e-8, sym_box=lambda nm: (Fraction(-4), Fraction(4)))
    res.bounds.add("FixedCubic on SE2: rotations (sin,cos) and angular velocities fixed to %s, T = 2; translations and translational velocities symbolic in [-4,4]" % (FC_ROT,))
    return res


def job_concat(loc, tier):
    T.reset_terms()
    res = check.Result()
    h = check.Harness("spline12", tu_text(tier))
    a, b = State(1, 3, 2, "a"), State(1, 3, 2, "b")
    t = T.Sym("t")
    ins = a.inputs() + b.inputs() + [t]
    asm = a.asm() + b.asm()
    fn = "cat_%d" % loc
    key = "concat_%s" % ("local" if loc else "global")

    def sym_sampler(k):
        r = random.Random(k)
        _, e1 = a.sample(r)
        _, e2 = b.sample(r)
        env = dict(e1)
        env.update(e2)
        t1 = e1[a.e[-1].args[0]]
        t2 = e2[b.e[-1].args[0]]
        env["t"] = r.choice([r.uniform(0, t1), r.uniform(t1, t1 + t2), t1, t1 + t2, 0.0, t1 + t2 + 0.7])
        return env
    res.functions.add(fn)
    res.validated += h.validate(fn, lambda k: [float(T.evaluate(x, sym_sampler(k))) for x in ins], 15, 6)
    t1 = a.e[-1]
    first = [(Cond("cmp", t, T.Const(0), "oge"), True), (Cond("cmp", t, t1, "olt"), True)]
    second = [(Cond("cmp", t, t1, "ogt"), True), (Cond("cmp", t, T.Add(t1, b.e[-1]), "ole"), True)]
    after = [(Cond("cmp", t, T.Add(t1, b.e[-1]), "ogt"), True)]

    def obligations(ins_, o):
        obl = [("first/value", o[0], o[3], first), ("first/vel", o[1], o[4], first), ("first/acc", o[2], o[5], first)]
        if loc:
            obl.append(("second/value", o[0], T.Add(o[9], T.Sub(o[6], b.g0[0])) if False else T.Add(o[9], o[6]), second))
        else:
            obl.append(("second/value", o[0], o[6], second))
        obl += [("second/vel", o[1], o[7], second), ("second/acc", o[2], o[8], second), ("t_max", o[10], T.Add(t1, b.e[-1])), ("size", o[11], T.Const(4))]
        # end point and out-of-range value of the concatenation: x1(t1) * x2.end() (local) resp. x2.end() (global)
        endv = T.Add(o[9], o[13]) if loc else o[13]
        obl += [("end()", o[12], endv), ("after/value", o[0], endv, after), ("after/vel", o[1], T.Const(0), after)]
        return obl
    wrapper_check(res, h, fn, ins, 15, key, obligations, asm, sym_sampler, max_paths=300 if tier == "quick" else 3000)
    res.axioms.add("concat: y(t)=x1(t) before t1; afterwards x1(t1)*x2(t-t1) (local) resp. x2(t-t1) (global), compared with the real operator() of the operands")
    return res


def main(tier):
    run = check.Run(PID, tier)
    check.JOB_BUDGET[0] = 400 if tier == "quick" else 1500
    check.run_jobs([(_compile, (tier,))])
    jobs = [(job_eval, ("T1", N, tier)) for N in (1, 2, 3)] + [(job_eval, ("T2", 2, tier))]
    jobs += [(job_crop, (N, loc, tier)) for N in ((1, 2) if tier == "quick" else (1, 2, 3)) for loc in (1, 0)]
    jobs += [(job_cv, (K, tier)) for K in (1, 2, 3, 4, 5)] + [(job_fc, ("T1", tier)), (job_fc, ("T2", tier)), (job_fc_se2, (0, tier)), (job_fc_se2, (1, tier))] + [(job_concat, (loc, tier)) for loc in (1, 0)]
    run.extend(check.run_jobs(jobs, timeout=1200 if tier == "quick" else 1800))
    run.bounds += ["groups double and Vector2d (exact rational curves); degree 3 for states, K=1..5 for ConstantVelocity; N <= 3 segments (crop N<=2 quick, <=3 thorough)",
                   "arbitrary representation-invariant state per operation (inductive step), all times symbolic"]
    run.assumptions += ["layer R", "non-commutative groups: not encoded for Spline (cumulative evaluation on SO3/SE2 is C11)", "arclength: not encoded in this round"]
    return run.finish()


def _compile(tier):
    check.Harness("spline12", tu_text(tier))
    return check.Result()
