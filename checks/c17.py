"""C17: relations and conversions between groups hold for all elements (DESIGN 4/C17)."""
import random, math
from fractions import Fraction
from symx import terms as T, groups as G, check, solver, engine, oracles as O
from symx.interp import Cond
from . import grouptu, c02

PID = "C17"
TOL = 1e-9
PI = T.Sym("pi!")
ASM_PI = [(Cond("cmp", PI, T.Const(solver.PI_LO), "ogt"), True), (Cond("cmp", PI, T.Const(solver.PI_HI), "olt"), True)]


def pair_job(nameA, nameB, op, tier):
    """the same operation on two groups that should coincide (SE_1_3 vs SE3; SE_2_3 vs Galilei at tau = s = 0)"""
    T.reset_terms()
    res = check.Result()
    gA, gB = G.BASIC[nameA], G.BASIC[nameB]
    hA, hB = grouptu.harness(gA), grouptu.harness(gB)
    key = "%s==%s/%s" % (nameA, nameB, op)
    from .c06 import OPS
    kinds, okind = OPS[op]
    gal = nameB == "Galilei"
    insA, insB = [], []
    for ki, k in enumerate(kinds):
        if k == "g":
            a = G.syms("g%d_" % ki, gA.rep)
            insA += a
            insB += (a[0:6] + [T.Const(0)] + a[6:10]) if gal else a
        else:
            a = G.syms("a%d_" % ki, gA.dof)
            insA += a
            insB += (a[0:6] + [T.Const(0)] + a[6:9]) if gal else a
    nA = {"g": gA.rep, "a": gA.dof, "M": gA.dim ** 2, "D": gA.dof ** 2}[okind]
    nB = {"g": gB.rep, "a": gB.dof, "M": gB.dim ** 2, "D": gB.dof ** 2}[okind]
    # index map: output index of A -> output index of B
    if not gal:
        imap = {i: i for i in range(nA)}
    else:
        sel_g = list(range(0, 6)) + list(range(7, 11))
        sel_a = list(range(0, 6)) + list(range(7, 10))
        if okind == "g":
            imap = {i: sel_g[i] for i in range(nA)}
        elif okind == "a":
            imap = {i: sel_a[i] for i in range(nA)}
        elif okind == "D":
            imap = {i * gA.dof + j: sel_a[i] * gB.dof + sel_a[j] for i in range(gA.dof) for j in range(gA.dof)}
        else:
            imap = {i * gA.dim + j: i * gB.dim + j for i in range(gA.dim) for j in range(gA.dim)}
    asm = []
    rules = []
    gsyms = [x for x in insA if x.op == "sym" and x.args[0].startswith("g")]
    if any(k == "g" for k in kinds):
        for ki, k in enumerate(kinds):
            if k == "g":
                a = G.syms("g%d_" % ki, gA.rep)
                rules += gA.rules(a)
                if op == "log":
                    asm += gA.canon(a)
    T.CTX.rules = list(rules)
    exA = engine.Explorer(hA.mod, assumptions=asm, max_paths=64)
    exB = engine.Explorer(hB.mod, assumptions=asm, max_paths=64)
    pA = exA.explore(grouptu.tag(gA) + "_" + op, insA, nA)
    pB = exB.explore(grouptu.tag(gB) + "_" + op, insB, nB)
    res.note_paths(pA, exA)
    res.note_paths(pB, exB)
    res.functions.update([grouptu.tag(gA) + "_" + op, grouptu.tag(gB) + "_" + op])
    feas = solver.Feasibility(asm, 2000)
    n = 0
    for ia, a in enumerate(pA):
        if a.status != "ok":
            continue
        for ib, b in enumerate(pB):
            if b.status != "ok":
                continue
            if not all(feas(a.pc, c, pol) is not False for c, pol in b.pc):
                continue
            n += 1
            bad = 0
            for i, j in imap.items():
                try:
                    with T.time_budget(15):
                        v = solver.check_identity(T.nf(T.Sub(a.outs[i], b.outs[j])), pc=a.pc + b.pc, assumptions=asm, extra_rules=rules)
                except (T.PolyTooBig, MemoryError):
                    v = solver.Verdict("undecided", "budget")
                if v.status != "holds":
                    bad += 1
                    w = pair_witness(hA, hB, gA, gB, op, kinds, imap, gal) if v.status == "violated" else None
                    res.add_raw("%s/path%d.%d/out%d" % (key, ia, ib, i), "violated" if w else "undecided", v.how + " " + v.detail[:100] + ("" if w else " ; not reproduced natively"), v.dt)
                    if w and not any(x["key"] == key for x in res.violations):
                        res.violations.append({"key": key, "what": "%s: %s" % (key, w)})
            if not bad:
                res.add_raw("%s/path%d.%d" % (key, ia, ib), "holds", "z3: all %d corresponding outputs equal" % len(imap))
    if not n:
        res.errors.append(key + ": vacuous")
    return res


def pair_witness(hA, hB, gA, gB, op, kinds, imap, gal, ntry=30):
    """native replay: the two groups' results on corresponding inputs must agree to 1e-9 relative"""
    nA = max(imap) + 1
    nB = max(imap.values()) + 1
    for k in range(ntry):
        r = random.Random(k)
        a_in, b_in = [], []
        for kk in kinds:
            if kk == "g":
                x = gA.random_element(r, 3.0)
                a_in += x
                b_in += (x[0:6] + [0.0] + x[6:10]) if gal else x
            else:
                x = c02.tangent_sampler(gA)(k)
                a_in += x
                b_in += (x[0:6] + [0.0] + x[6:9]) if gal else x
        oa = hA.native(grouptu.tag(gA) + "_" + op, a_in, nA)
        ob = hB.native(grouptu.tag(gB) + "_" + op, b_in, nB)
        sc = max([1.0] + [abs(x) for x in oa])
        for i, j in imap.items():
            if not abs(oa[i] - ob[j]) <= 1e-9 * sc:
                return "native results differ: %s output %d = %r, %s output %d = %r at input %r" % (gA.name, i, oa[i], gB.name, j, ob[j], a_in)
    return None


def rel_harness():
    return check.Harness("rel", '#include "vrel.hpp"\n')


def job_angles(tier):
    T.reset_terms()
    res = check.Result()
    h = rel_harness()
    qz, qw = T.Sym("qz"), T.Sym("qw")
    rules = [G.unit_rule([qz, qw])]
    T.CTX.rules = rules
    asm = list(ASM_PI)

    def sampler(k):
        a = [0.0, math.pi, -math.pi / 2, math.pi / 2, 2.5, -2.5, 1e-9, -1e-9, 3.1][k % 9]
        if k % 9 == 1:
            return [0.0, -1.0]
        return [math.sin(a), math.cos(a)]
    res.functions.add("rel_angles")
    res.validated += h.validate("rel_angles", sampler, 3, 9)
    ex = engine.Explorer(h.mod, assumptions=asm)
    paths = ex.explore("rel_angles", [qz, qw], 3)
    res.note_paths(paths, ex)
    twopi = T.Mul(T.Const(2), PI)
    for pi_, p in enumerate(paths):
        if p.status != "ok":
            res.add_raw("angles/path%d" % pi_, "undecided", p.reason)
            continue
        ang, cw, ccw = p.outs
        # the literal M_PI is the double nearest to pi: tie it to the solver's pi enclosure (difference < 1e-15)
        goals = [("angle>=-pi", Cond("cmp", ang, T.Neg(PI), "olt")), ("angle<=pi", Cond("cmp", ang, PI, "ogt")),
                 ("cw<=0", Cond("cmp", cw, T.Const(Fraction(1, 10**12)), "ogt")), ("cw>=-2pi", Cond("cmp", cw, T.Sub(T.Neg(twopi), T.Const(Fraction(1, 10**12))), "olt")),
                 ("ccw>=0", Cond("cmp", ccw, T.Const(Fraction(-1, 10**12)), "olt")), ("ccw<=2pi", Cond("cmp", ccw, T.Add(twopi, T.Const(Fraction(1, 10**12))), "ogt"))]
        for name, neg in goals:
            st, how, dt = pi_query_rules(asm + p.pc, neg, rules)
            oname = "angles/path%d/%s" % (pi_, name)
            if st == "holds":
                res.add_raw(oname, "holds", how, dt)
            else:
                # candidate counterexamples: replay natively on the special elements
                w = None
                for k in range(40):
                    inp = sampler(k)
                    out = h.native("rel_angles", inp, 3)
                    bad = (out[0] < -math.pi - 1e-12 or out[0] > math.pi + 1e-12 or out[1] > 1e-12 or out[1] < -2 * math.pi - 1e-12 or out[2] < -1e-12 or out[2] > 2 * math.pi + 1e-12)
                    if bad:
                        w = (inp, out)
                        break
                if w and name.startswith(("cw", "ccw", "angle")) and violates(name, w[1]):
                    res.add_raw(oname, "violated", how, dt)
                    res.violations.append({"key": "angles/" + name, "what": "SO2 element (qz,qw)=%r: angle()=%r angle_cw()=%r angle_ccw()=%r violates %s" % (w[0], w[1][0], w[1][1], w[1][2], name),
                                           "replay": {"property": PID, "key": "angles/" + name, "tu_name": h.name, "tu_text": h.text, "fn": "rel_angles", "inputs": w[0], "nout": 3, "native": w[1],
                                                      "obligation": name, "lhs": str(w[1]), "rhs": "range", "err": 1.0, "tol": 1e-12}})
                else:
                    res.add_raw(oname, "undecided", how + " ; not reproduced natively", dt)
        # congruence modulo 2 pi
        for name, d in (("cw-angle", T.Sub(cw, ang)), ("ccw-angle", T.Sub(ccw, ang))):
            alts = [T.Const(0), twopi, T.Neg(twopi)]
            z = solver.Z()
            fs, atoms = [], set()
            for c, pol in asm + p.pc:
                f, side = z.cond(c, pol)
                fs.append(f)
                fs += side
                solver.cond_atoms(c, atoms)
            n_, d_ = T.nf(d)
            atoms |= T.p_vars(n_) | T.p_vars(d_)
            fs += solver.atom_axioms(z, atoms)
            fs += rule_formulas(z, rules)
            for i in atoms:
                if T.ATOM_LIST[i] == ("sym", "pi!"):
                    fs.append(z.atom(i) == z.pi)
            import z3
            dv = z.poly(n_)
            tol = solver.zfrac(Fraction(1, 10**12))
            ors = []
            for k in (0, 2, -2):
                ors.append(z3.And(dv - k * z.pi < tol, dv - k * z.pi > -tol))
            fs.append(z3.Not(z3.Or(ors)))
            rs, m, dt = solver.check(fs, 10000)
            res.add_raw("angles/path%d/%s congruent mod 2pi" % (pi_, name), "holds" if rs == "unsat" else "undecided", "z3 with atan2 range/negation axioms (%s)" % rs, dt)
    res.axioms.add("atan2 quadrant/range axioms; atan2(-y,-x) = atan2(y,x) -+ pi; the literal M_PI is identified with pi up to 1e-12")
    # SUPPLEMENTARY: layer R identifies -0.0 with +0.0, but atan2 does not.  The eight signed-zero axis elements are a finite set: replay them natively.
    for qz, qw in [(0.0, 1.0), (-0.0, 1.0), (0.0, -1.0), (-0.0, -1.0), (1.0, 0.0), (1.0, -0.0), (-1.0, 0.0), (-1.0, -0.0)]:
        out = h.native("rel_angles", [qz, qw], 3)
        for name in ("angle>=-pi", "angle<=pi", "cw<=0", "cw>=-2pi", "ccw>=0", "ccw<=2pi"):
            if violates(name, out):
                key = "angles/signed-zero/" + name
                res.add_raw("angles/signed-zero(%r,%r)/%s" % (qz, qw, name), "violated", "native replay of the signed-zero axis elements")
                if not any(v["key"] == key for v in res.violations):
                    res.violations.append({"key": key, "what": "SO2 element (qz,qw)=(%r,%r): angle()=%r angle_cw()=%r angle_ccw()=%r violates %s" % (qz, qw, out[0], out[1], out[2], name),
                                           "replay": {"property": PID, "key": key, "tu_name": h.name, "tu_text": h.text, "fn": "rel_angles", "inputs": [qz, qw], "nout": 3, "native": out,
                                                      "obligation": name, "lhs": str(out), "rhs": "range", "err": 1.0, "tol": 1e-12}})
    res.notes.append("angles: supplementary native replay of the 8 signed-zero axis elements (exhaustive over that finite set)")
    return res


def violates(name, out):
    a, cw, ccw = out
    return {"angle>=-pi": a < -math.pi - 1e-12, "angle<=pi": a > math.pi + 1e-12, "cw<=0": cw > 1e-12, "cw>=-2pi": cw < -2 * math.pi - 1e-12,
            "ccw>=0": ccw < -1e-12, "ccw<=2pi": ccw > 2 * math.pi + 1e-12}[name]


def rule_formulas(z, rules):
    fs = []
    for (at, k, rep) in rules:
        x = z.atom(at)
        lhs = x
        for _ in range(k - 1):
            lhs = lhs * x
        fs.append(lhs == z.poly(rep))
    return fs


def pi_query_rules(conds, goal_neg, rules):
    z = solver.Z()
    fs, atoms = [], set()
    for c, pol in list(conds) + [(goal_neg, True)]:
        f, side = z.cond(c, pol)
        fs.append(f)
        fs += side
        solver.cond_atoms(c, atoms)
    fs += solver.atom_axioms(z, atoms)
    fs += rule_formulas(z, rules)
    for i in list(atoms) + [a for a, _, _ in rules]:
        if i < len(T.ATOM_LIST) and T.ATOM_LIST[i] == ("sym", "pi!"):
            fs.append(z.atom(i) == z.pi)
    rs, m, dt = solver.check(fs, 10000)
    return ("holds" if rs == "unsat" else "undecided", "z3 with atan2/pi axioms (%s)" % rs, dt)


def job_misc(which, tier):
    T.reset_terms()
    res = check.Result()
    h = rel_harness()
    key = which
    kw = dict(tol=TOL, pid=PID, nvalidate=6)
    rnd = random.Random(5)

    def rq(r):
        q = [r.gauss(0, 1) for _ in range(4)]
        n = math.sqrt(sum(x * x for x in q))
        q = [x / n for x in q]
        return q if q[3] >= 0 else [-x for x in q]
    if which == "c1_parts":
        a, b = T.Sym("a"), T.Sym("b")
        asm = [(Cond("cmp", T.Add(T.Mul(a, a), T.Mul(b, b)), T.Const(0), "ogt"), True)]

        def obl(ins, o):
            # C1 = scaling * so2 :  scaling >= 0, scaling^2 = a^2+b^2, scaling*so2 = (a,b)
            return [("scaling^2", T.Mul(o[0], o[0]), T.Add(T.Mul(a, a), T.Mul(b, b))), ("a", T.Mul(o[0], o[1]), a), ("b", T.Mul(o[0], o[2]), b),
                    ("so2-unit", T.Add(T.Mul(o[1], o[1]), T.Mul(o[2], o[2])), T.Const(1))]
        check.check_wrapper(res, h, "rel_c1_parts", [a, b], 3, None, key, obligations=obl, assumptions=asm,
                            sampler=lambda k: [random.Random(k).uniform(-3, 3), random.Random(k + 9).uniform(-3, 3)], **kw)
    elif which.startswith("rot_"):
        t = T.Sym("t")
        ax = "xyz".index(which[-1])
        half = T.Mul(t, T.Const(Fraction(1, 2)))
        # rot(t) = exp(t e_i) as rotations for EVERY t: compare rotation matrices (quaternion sign is canonical on both sides)
        def obl(ins, o):
            A, B = G.quat_R(o[0:4]), G.quat_R(o[4:8])
            out = [("R%d%d" % (i, j), A[i][j], B[i][j]) for i in range(3) for j in range(3)]
            out += [("same-quaternion%d" % i, o[i], o[4 + i]) for i in range(4)]
            return out
        check.check_wrapper(res, h, "rel_" + which, [t], 8, None, key, obligations=obl, sampler=lambda k: [[0.0, 1.0, -2.0, 3.5, 6.0, 1e-6, -4.0][k % 7]], **kw)
    elif which == "quat_ctor":
        q = G.syms("q", 4)
        asm = [(Cond("cmp", G.dot(q, q), T.Const(0), "ogt"), True)]

        def obl(ins, o):
            # normalised, canonical hemisphere, same rotation:  o = lambda q with lambda = +-1/|q|  <=>  o_i q_j = o_j q_i, |o|=1 ; w >= 0 is a path property
            out = [("unit", G.dot(o, o), T.Const(1))]
            out += [("parallel%d%d" % (i, j), T.Mul(o[i], q[j]), T.Mul(o[j], q[i])) for i in range(4) for j in range(i)]
            return out
        paths = check.check_wrapper(res, h, "rel_quat_ctor", q, 4, None, key, obligations=obl, assumptions=asm,
                                    sampler=lambda k: [random.Random(k * 3 + i).uniform(-2, 2) for i in range(4)], **kw)
        for pi_, p in enumerate(paths):
            if p.status == "ok":
                okc = solver.entails(p.pc, Cond("cmp", p.outs[3], T.Const(0), "oge"), True, asm, timeout_ms=5000)
                res.add_raw("%s/path%d/canonical-hemisphere" % (key, pi_), "holds" if okc else "undecided", "z3: path condition entails q_w >= 0")
    elif which == "so2_ctor":
        a, b = T.Sym("a"), T.Sym("b")
        asm = [(Cond("cmp", T.Add(T.Mul(a, a), T.Mul(b, b)), T.Const(0), "ogt"), True)]

        def obl(ins, o):
            out = []
            for k in (0, 2, 4):
                out += [("unit%d" % k, T.Add(T.Mul(o[k], o[k]), T.Mul(o[k + 1], o[k + 1])), T.Const(1)), ("parallel%d" % k, T.Mul(o[k], b), T.Mul(o[k + 1], a))]
            return out
        check.check_wrapper(res, h, "rel_so2_ctor", [a, b], 6, None, key, obligations=obl, assumptions=asm,
                            sampler=lambda k: [random.Random(k).uniform(-3, 3), random.Random(k + 9).uniform(-3, 3)], **kw)
    elif which in ("se3_isometry", "so3_quat_matrix"):
        g = G.BASIC["SE3"] if which == "se3_isometry" else G.BASIC["SO3"]
        gs = G.syms("g", g.rep)
        rules = g.rules(gs)
        T.CTX.rules = rules
        asm = g.canon(gs)

        def obl(ins, o):
            A, B = g.docM(o), g.docM(gs)
            return [("M%d%d" % (i, j), A[i][j], B[i][j]) for i in range(g.dim) for j in range(g.dim)]
        check.check_wrapper(res, h, "rel_" + which, gs, g.rep, None, key, obligations=obl, assumptions=asm, rules=rules,
                            sampler=lambda k: g.random_element(random.Random(k), 3.0), max_paths=64, **kw)
    elif which == "se2_isometry":
        g = G.BASIC["SE2"]
        gs = G.syms("g", 4)
        rules = g.rules(gs)
        check.check_wrapper(res, h, "rel_se2_isometry", gs, 4, lambda ins: list(gs), key, rules=rules, sampler=lambda k: g.random_element(random.Random(k), 3.0), **kw)
    elif which == "lift_project_so":
        phi = T.Sym("phi")
        T.CTX.principal.add(T.rf_key(T.nf(phi)))
        half = T.Mul(phi, T.Const(Fraction(1, 2)))
        asm = list(ASM_PI) + [(Cond("cmp", phi, PI, "ole"), True), (Cond("cmp", phi, T.Neg(PI), "ogt"), True),
                              (Cond("cmp", T.Fn("cos", half), T.Const(0), "oge"), True)]
        ins = [T.Fn("sin", phi), T.Fn("cos", phi)]

        def obl(ins_, o):
            # lift = z-axis quaternion of the same angle; project(lift(a)) = a
            return [("lift.x", o[0], T.Const(0)), ("lift.y", o[1], T.Const(0)), ("lift.z", o[2], T.Fn("sin", half)), ("lift.w", o[3], T.Fn("cos", half)),
                    ("project.qz", o[4], ins[0]), ("project.qw", o[5], ins[1])]
        import checks.c12 as c12
        c12.wrapper_check(res, h, "rel_lift_project_so", ins, 6, key, obl, asm, lambda k: {"phi": [0.0, 1.0, -2.5, 3.1, -3.1, math.pi][k % 6], "pi!": math.pi}, tol=1e-9)
        res.axioms.add("unit complex number parametrised by its principal angle phi in (-pi,pi]; cos(phi/2) >= 0 there")
    elif which == "lift_hom_so":
        p1, p2 = T.Sym("phi1"), T.Sym("phi2")
        ins = [T.Fn("sin", p1), T.Fn("cos", p1), T.Fn("sin", p2), T.Fn("cos", p2)]
        asm = []

        def obl(ins_, o):
            A, B = G.quat_R(o[0:4]), G.quat_R(o[4:8])
            return [("R%d%d" % (i, j), A[i][j], B[i][j]) for i in range(3) for j in range(3)]
        import checks.c12 as c12
        c12.wrapper_check(res, h, "rel_lift_hom_so", ins, 8, key, obl, asm, lambda k: {"phi1": random.Random(k).uniform(-3.1, 3.1), "phi2": random.Random(k + 7).uniform(-3.1, 3.1)}, tol=1e-9)
    return res


def _compile_rel():
    rel_harness()
    return check.Result()


def _compile(g):
    grouptu.harness(g)
    return check.Result()


def main(tier):
    run = check.Run(PID, tier)
    check.JOB_BUDGET[0] = 240 if tier == "quick" else 1500
    B = G.BASIC
    check.run_jobs([(_compile_rel, ())] + [(_compile, (B[n],)) for n in ("SE3", "SE_1_3", "SE_2_3", "Galilei")])
    ops = ["compose", "inverse", "exp", "log", "Ad", "ad", "hat", "dr_exp", "dr_expinv"]
    jobs = [(pair_job, ("SE_1_3", "SE3", op, tier)) for op in ops]
    jobs += [(pair_job, ("SE_2_3", "Galilei", op, tier)) for op in ["compose", "inverse", "exp", "log", "Ad", "ad", "hat"]]
    jobs += [(job_angles, (tier,))]
    jobs += [(job_misc, (w, tier)) for w in ("c1_parts", "rot_x", "rot_y", "rot_z", "quat_ctor", "so2_ctor", "se3_isometry", "se2_isometry", "so3_quat_matrix",
                                             "lift_project_so", "lift_hom_so")]
    run.extend(check.run_jobs(jobs, timeout=900))
    run.bounds += ["SE_K_3<1> vs SE3: %s; SE_K_3<2> vs Galilei(tau=0,s=0): compose, inverse, exp, log, Ad, ad, hat" % ops]
    run.assumptions += ["layer R", "Euler-angle round trip: differential validation only (not encoded)", "lift_se3/project_se2 follow from the SO2/SO3 parts (translation copied)"]
    return run.finish()
