"""C20: polynomial, quadrature and search utilities equal their definitions (DESIGN 4/C20)."""
import random, math
from fractions import Fraction
from math import comb, factorial
from symx import terms as T, groups as G, check, solver, engine, interp
from symx.interp import Cond
import z3

PID = "C20"
TOL = Fraction(1, 10**9)
BASES = ["Bernstein", "Bspline", "Chebyshev1st", "Chebyshev2nd", "Hermite", "Laguerre", "Legendre", "Monomial"]


def tu_text(Ks, KL, NS):
    L = ['#include <cmath>', '#include <smooth/polynomial/basis.hpp>', '#include <smooth/polynomial/quadrature.hpp>', '#include <smooth/detail/utils.hpp>', '#include <vector>', '#include <array>',
         'using smooth::PolynomialBasis;',
         'template<typename M> static void putm(const M& m, double*& o, int R, int C){ for(int i=0;i<R;++i) for(int j=0;j<C;++j) *o++ = m[i][j]; }']
    for K in Ks:
        for b in BASES:
            L.append('extern "C" void basis_%s_%d(const double*, double* o){ constexpr auto B = smooth::polynomial_basis<PolynomialBasis::%s, %d>(); putm(B,o,%d,%d);}' % (b, K, b, K, K + 1, K + 1))
        for b in ("Bernstein", "Bspline"):
            L.append('extern "C" void cum_%s_%d(const double*, double* o){ constexpr auto B = smooth::polynomial_cumulative_basis<PolynomialBasis::%s, %d>(); putm(B,o,%d,%d);}' % (b, K, b, K, K + 1, K + 1))
        L.append('extern "C" void mder_%d(const double* i, double* o){ for (std::size_t p=0;p<=%d+1;++p){ auto U = smooth::monomial_derivative<%d,double>(i[0], p); putm(U,o,1,%d);} auto Us = smooth::monomial_derivatives<%d,%d,double>(i[0]); putm(Us,o,%d,%d);}'
                 % (K, K, K, K + 1, K, min(K, 3), min(K, 3) + 1, K + 1))
    for K in MINT_K:
        for P in mint_orders(K):
            L.append('extern "C" void mint_%d_%d(const double*, double* o){ constexpr auto M = smooth::monomial_integral<%d,%d,double>(); putm(M,o,%d,%d);}' % (K, P, K, P, K + 1, K + 1))
    for K in range(1, 4):
        L.append('extern "C" void lagr_%d(const double* i, double* o){ std::array<double,%d> ts; for(int k=0;k<%d;++k) ts[k]=i[k]; auto B = smooth::lagrange_basis<%d>(ts); putm(B,o,%d,%d);}' % (K, K + 1, K + 1, K, K + 1, K + 1))
    for K in KL:
        L.append('extern "C" void lgr_%d(const double*, double* o){ constexpr auto nw = smooth::lgr_nodes<%d>(); for(int k=0;k<%d;++k) *o++ = nw.first[k]; for(int k=0;k<%d;++k) *o++ = nw.second[k];}' % (K, K, K, K))
    L.append('extern "C" void iap(const double* i, double* o){ o[0] = smooth::integrate_absolute_polynomial(i[0], i[1], i[2], i[3], i[4]); }')
    for N in NS:
        L.append('extern "C" void bis_%d(const double* i, double* o){ std::vector<double> r(i, i+%d); auto it = smooth::utils::binary_interval_search(r, i[%d]); o[0] = static_cast<double>(it - r.begin()); }' % (N, N, N))
    return "\n".join(L) + "\n"


MINT_K = range(0, 11)   # monomial_integral is a constexpr table: every K <= 10 in both tiers


def mint_orders(K):
    """every derivative order 0..K+1 (the table is all zero for P = K+1): the factorial products reach 2^32 only for K >= 9, P >= 6"""
    return range(0, K + 2)


# ------------------------------------------------------------------------------------------------ exact definitions
def P_mul(a, b):
    r = [Fraction(0)] * (len(a) + len(b) - 1)
    for i, x in enumerate(a):
        for j, y in enumerate(b):
            r[i + j] += x * y
    return r


def P_add(a, b, sb=1):
    n = max(len(a), len(b))
    return [(a[i] if i < len(a) else 0) + sb * (b[i] if i < len(b) else 0) for i in range(n)]


def P_scale(a, c):
    return [Fraction(c) * x for x in a]


def bernstein(K):
    out = []
    for v in range(K + 1):
        p = [Fraction(comb(K, v))]
        for _ in range(v):
            p = P_mul(p, [0, 1])
        for _ in range(K - v):
            p = P_mul(p, [1, -1])
        out.append(p)
    return out


def bspline(K):
    """Cox-de Boor on the uniform knots 0,1,2,...: pieces of B_{i,K}, i=0..K, on [K, K+1) as polynomials in u=t-K"""
    # represent B_{i,k} restricted to the interval [K, K+1) as polynomial in u
    # B_{i,0} = 1 iff i == K
    prev = {i: ([Fraction(1)] if i == K else [Fraction(0)]) for i in range(0, 2 * K + 2)}
    for k in range(1, K + 1):
        cur = {}
        for i in range(0, 2 * K + 2 - k):
            # (t - i)/k B_{i,k-1} + (i+k+1-t)/k B_{i+1,k-1},  t = K + u
            a = P_mul([Fraction(K - i, k), Fraction(1, k)], prev[i])
            b = P_mul([Fraction(i + k + 1 - K, k), Fraction(-1, k)], prev[i + 1])
            cur[i] = P_add(a, b)
        prev = cur
    return [prev[i] for i in range(K + 1)]


def recurrence(kind, K):
    x = [Fraction(0), Fraction(1)]
    if kind == "Legendre":
        P = [[Fraction(1)], x]
        for n in range(1, K):
            P.append(P_scale(P_add(P_scale(P_mul(x, P[n]), 2 * n + 1), P_scale(P[n - 1], n), -1), Fraction(1, n + 1)))
    elif kind == "Chebyshev1st":
        P = [[Fraction(1)], x]
        for n in range(1, K):
            P.append(P_add(P_scale(P_mul(x, P[n]), 2), P[n - 1], -1))
    elif kind == "Chebyshev2nd":
        P = [[Fraction(1)], [Fraction(0), Fraction(2)]]
        for n in range(1, K):
            P.append(P_add(P_scale(P_mul(x, P[n]), 2), P[n - 1], -1))
    elif kind == "Hermite":
        P = [[Fraction(1)], [Fraction(0), Fraction(2)]]
        for n in range(1, K):
            P.append(P_add(P_scale(P_mul(x, P[n]), 2), P_scale(P[n - 1], 2 * n), -1))
    elif kind == "Laguerre":
        P = [[Fraction(1)], [Fraction(1), Fraction(-1)]]
        for n in range(1, K):
            P.append(P_scale(P_add(P_mul([Fraction(2 * n + 1), Fraction(-1)], P[n]), P_scale(P[n - 1], n), -1), Fraction(1, n + 1)))
    elif kind == "Monomial":
        P = [[Fraction(0)] * k + [Fraction(1)] for k in range(K + 1)]
    return P[:K + 1]


DOMAIN = {"Legendre": (-1, 1), "Chebyshev1st": (-1, 1), "Chebyshev2nd": (-1, 1), "Hermite": (-3, 3), "Laguerre": (0, 6), "Monomial": (-2, 2), "Bernstein": (0, 1), "Bspline": (0, 1)}


def z_poly(coefs, u):
    acc = z3.RealVal(0)
    for c in reversed(coefs):
        acc = acc * u + solver.zfrac(c)
    return acc


def zcheck(fs, timeout=10000):
    rs, m, dt = solver.check(fs, timeout)
    return rs, dt


def get_matrix(h, fn, n, m):
    out, steps = h.concrete(fn, [], n * m)
    return [[out[i * m + j] for j in range(m)] for i in range(n)], steps


def job_bases(Ks, KL, NS, tier):
    T.reset_terms()
    res = check.Result()
    h = check.Harness("poly_" + tier, tu_text(Ks, KL, NS))
    u = z3.Real("u")
    for K in Ks:
        for b in BASES:
            fn = "basis_%s_%d" % (b, K)
            res.functions.add(fn)
            res.validated += h.validate(fn, lambda k: [], (K + 1) ** 2, 1)
            B, steps = get_matrix(h, fn, K + 1, K + 1)
            res.paths += 1
            res.steps += steps
            cols = [[T.snap(B[r][k]) for r in range(K + 1)] for k in range(K + 1)]  # coefficient list of basis function k
            key = "basis/%s/K%d" % (b, K)
            lo, hi = DOMAIN[b]
            dom = [u >= lo, u <= hi]
            if b in ("Bernstein", "Bspline"):
                ref = bernstein(K) if b == "Bernstein" else bspline(K)
                # equals the definition (Bernstein polynomials / Cox-de Boor), within 1e-9 on [0,1]
                for k in range(K + 1):
                    d = P_add(cols[k], ref[k], -1)
                    if all(x == 0 for x in d):
                        rs, dt = zcheck([z_poly(d, u) != 0])
                    else:
                        rs, dt = zcheck(dom + [z3.Or(z_poly(d, u) > solver.zfrac(TOL), z_poly(d, u) < -solver.zfrac(TOL))])
                    res.add_raw("%s/fn%d-equals-definition" % (key, k), "holds" if rs == "unsat" else "violated", "z3 (%s)" % rs, dt)
                    if rs != "unsat":
                        res.violations.append({"key": key + "/definition", "what": "%s basis function %d of degree %d differs from its definition; coefficients %s vs %s" % (b, k, K, [str(x) for x in cols[k]], [str(x) for x in ref[k]])})
                    # non-negative on [0,1]
                    rs, dt = zcheck(dom + [z_poly(cols[k], u) < -solver.zfrac(TOL)])
                    res.add_raw("%s/fn%d-nonnegative" % (key, k), "holds" if rs == "unsat" else "violated", "z3 NRA one variable (%s)" % rs, dt)
                    if rs != "unsat":
                        res.violations.append({"key": key + "/nonneg", "what": "%s basis function %d (K=%d) is negative somewhere on [0,1]" % (b, k, K)})
                s_ = [sum(cols[k][r] for k in range(K + 1)) for r in range(K + 1)]
                d = P_add(s_, [Fraction(1)], -1)
                rs, dt = zcheck(dom + [z3.Or(z_poly(d, u) > solver.zfrac(TOL), z_poly(d, u) < -solver.zfrac(TOL))])
                res.add_raw("%s/partition-of-unity" % key, "holds" if rs == "unsat" else "violated", "z3 (%s)" % rs, dt)
                if rs != "unsat":
                    res.violations.append({"key": key + "/sum", "what": "%s basis of degree %d does not sum to one" % (b, K)})
                # cumulative basis
                fnc = "cum_%s_%d" % (b, K)
                C, steps = get_matrix(h, fnc, K + 1, K + 1)
                res.paths += 1
                res.steps += steps
                res.functions.add(fnc)
                ccols = [[T.snap(C[r][k]) for r in range(K + 1)] for k in range(K + 1)]
                for j in range(K + 1):
                    want = [sum(cols[i][r] for i in range(j, K + 1)) for r in range(K + 1)]
                    d = P_add(ccols[j], want, -1)
                    rs, dt = zcheck(dom + [z3.Or(z_poly(d, u) > solver.zfrac(TOL), z_poly(d, u) < -solver.zfrac(TOL))])
                    ok = rs == "unsat"
                    res.add_raw("%s/cumulative%d" % (key, j), "holds" if ok else "violated", "z3 (%s): cumulative_j = sum_{i>=j} b_i" % rs, dt)
                    if not ok:
                        res.violations.append({"key": key + "/cumulative", "what": "%s cumulative basis function %d (K=%d) is not the tail sum of the basis" % (b, j, K)})
                d0 = P_add(ccols[0], [Fraction(1)], -1)
                ok = all(abs(x) <= TOL for x in d0)
                res.add_raw("%s/cumulative-starts-with-1" % key, "holds" if ok else "violated", "exact rational comparison of snapped constants")
                if not ok:
                    res.violations.append({"key": key + "/cum0", "what": "%s cumulative basis (K=%d) does not start with the constant 1" % (b, K)})
                if b == "Bernstein":
                    for j in range(1, K + 1):
                        v0 = ccols[j][0]
                        v1 = sum(ccols[j])
                        ok = abs(v0) <= TOL and abs(v1 - 1) <= TOL
                        res.add_raw("%s/cumulative%d-runs-0-to-1" % (key, j), "holds" if ok else "violated", "exact rational evaluation at u=0,1")
                        if not ok:
                            res.violations.append({"key": key + "/cum01", "what": "Bernstein cumulative function %d (K=%d): value %s at 0, %s at 1" % (j, K, v0, v1)})
            else:
                ref = recurrence(b, K)
                for k in range(K + 1):
                    d = P_add(cols[k], ref[k], -1)
                    scale = max([abs(x) for x in ref[k]] + [1])
                    if all(x == 0 for x in d):
                        rs, dt = zcheck([z_poly(d, u) != 0])
                    else:
                        rs, dt = zcheck(dom + [z3.Or(z_poly(d, u) > solver.zfrac(TOL * scale), z_poly(d, u) < -solver.zfrac(TOL * scale))])
                    res.add_raw("%s/P%d-recurrence+normalisation" % (key, k), "holds" if rs == "unsat" else "violated",
                                "z3 (%s): equals the polynomial generated by the three-term recurrence from P0, P1" % rs, dt)
                    if rs != "unsat":
                        res.violations.append({"key": key + "/recurrence", "what": "%s polynomial %d (matrix of degree %d) violates its recurrence/normalisation: %s vs %s"
                                               % (b, k, K, [str(x) for x in cols[k]], [str(x) for x in ref[k]])})
        # monomial derivatives: symbolic u
        us = T.Sym("u")
        P3 = min(K, 3)
        nout = (K + 2) * (K + 1) + (P3 + 1) * (K + 1)

        def orc(ins, K=K, P3=P3):
            out = []
            for p in range(K + 2):
                for k in range(K + 1):
                    out.append(T.Const(0) if p > k else T.Mul(T.Const(factorial(k) // factorial(k - p)), tpow(ins[0], k - p)))
            for p in range(P3 + 1):
                for k in range(K + 1):
                    out.append(T.Const(0) if p > k else T.Mul(T.Const(factorial(k) // factorial(k - p)), tpow(ins[0], k - p)))
            return out
        check.check_wrapper(res, h, "mder_%d" % K, [us], nout, orc, "monomial_derivative/K%d" % K, tol=1e-9, pid=PID,
                            sampler=lambda k: [random.Random(k).uniform(-2, 2)], nvalidate=3)
    for K in MINT_K:
        for P in mint_orders(K):
            M, steps = get_matrix(h, "mint_%d_%d" % (K, P), K + 1, K + 1)
            res.paths += 1
            res.steps += steps
            ok = True
            for i in range(K + 1):
                for j in range(K + 1):
                    if i >= P and j >= P:
                        want = Fraction(factorial(i) // factorial(i - P) * (factorial(j) // factorial(j - P)), i + j - 2 * P + 1)
                    else:
                        want = Fraction(0)
                    if abs(Fraction(M[i][j]) - want) > TOL * max(1, abs(want)):
                        ok = False
            res.add_raw("monomial_integral/K%d/P%d" % (K, P), "holds" if ok else "violated", "ground rational arithmetic (exhaustive over entries)")
            if not ok:
                res.violations.append({"key": "monomial_integral/K%d/P%d" % (K, P), "what": "monomial_integral<%d,%d> differs from int_0^1 d^P u^i d^P u^j" % (K, P)})
    # lagrange basis on symbolic distinct nodes
    for K in range(1, 4):
        ts = G.syms("t", K + 1)

        def obl(ins, outs, K=K):
            o = []
            for i in range(K + 1):
                for j in range(K + 1):
                    val = G.sum_terms([T.Mul(outs[r * (K + 1) + i], tpow(ins[j], r)) for r in range(K + 1)])
                    o.append(("p%d(t%d)" % (i, j), val, T.Const(1 if i == j else 0)))
            return o
        asm = [(Cond("cmp", ts[i], ts[j], "one"), True) for i in range(K + 1) for j in range(i)]
        check.check_wrapper(res, h, "lagr_%d" % K, ts, (K + 1) ** 2, None, "lagrange_basis/K%d" % K, tol=1e-9, pid=PID, obligations=obl, assumptions=asm,
                            sampler=lambda k, K=K: [i + random.Random(k * 13 + i).uniform(-0.3, 0.3) for i in range(K + 1)], nvalidate=3)
    # LGR nodes
    for K in KL:
        out, steps = h.concrete("lgr_%d" % K, [], 2 * K)
        res.paths += 1
        res.steps += steps
        res.functions.add("lgr_%d" % K)
        res.validated += h.validate("lgr_%d" % K, lambda k: [], 2 * K, 1)
        xs = [Fraction(x) for x in out[:K]]
        ws = [Fraction(x) for x in out[K:]]
        bad = None
        for m in range(0, 2 * K - 1):
            s_ = sum(w * x ** m for w, x in zip(ws, xs))
            want = Fraction(2, m + 1) if m % 2 == 0 else Fraction(0)
            q = z3.Real("q")
            rs, dt = zcheck([q == solver.zfrac(s_ - want), z3.Or(q > solver.zfrac(TOL), q < -solver.zfrac(TOL))])
            if rs != "unsat":
                bad = (m, float(s_), float(want))
        res.add_raw("lgr_nodes/K%d" % K, "holds" if bad is None else "violated", "z3 ground arithmetic: sum w_i x_i^m = int_{-1}^{1} x^m for m <= %d" % (2 * K - 2))
        if bad:
            res.violations.append({"key": "lgr_nodes/K%d" % K, "what": "lgr_nodes<%d>: moment %d is %r, expected %r" % ((K,) + bad)})
    res.bounds.add("bases K in %s, LGR node counts %s" % (Ks, KL))
    return res


def tpow(x, k):
    r = T.Const(1)
    for _ in range(k):
        r = T.Mul(r, x)
    return r


def job_search(N, Ks, KL, NS, tier):
    """binary_interval_search on a symbolic sorted range of length N and a symbolic query: the four documented cases"""
    T.reset_terms()
    res = check.Result()
    h = check.Harness("poly_" + tier, tu_text(Ks, KL, NS))
    r = G.syms("r", N)
    t = T.Sym("t")
    asm = [(Cond("cmp", r[i], r[i + 1], "ole"), True) for i in range(N - 1)]
    fn = "bis_%d" % N

    def sampler(k):
        rr = random.Random(k)
        v = sorted(rr.choice([0.0, 1.0, 1.0, 2.0, 3.5, 7.0]) for _ in range(N))
        return v + [rr.choice([-1.0, 0.0, 0.5, 1.0, 2.0, 3.0, 3.5, 7.0, 9.0])]
    res.functions.add(fn)
    if N:
        res.validated += h.validate(fn, sampler, 1, 12)
    ex = engine.Explorer(h.mod, assumptions=asm, max_paths=4000, feas_timeout_ms=1500)
    paths = ex.explore(fn, r + [t], 1)
    res.note_paths(paths, ex)
    if ex.truncated:
        res.errors.append("bis_%d: path budget exhausted" % N)
    for pi, p in enumerate(paths):
        pk = "binary_interval_search/N%d/path%d" % (N, pi)
        if p.status == "memerror":
            res.add_raw(pk + "/memory", "violated", p.reason)
            res.violations.append({"key": "binary_interval_search/N%d/memory" % N, "what": "binary_interval_search (N=%d): %s on path %s" % (N, p.reason, p.pc_str()[:200])})
            continue
        if p.status != "ok":
            res.add_raw(pk, "undecided", "%s: %s" % (p.status, p.reason))
            continue
        idx = p.outs[0]
        if idx.op != "const":
            res.errors.append(pk + ": symbolic index")
            continue
        i = int(idx.args[0])
        # documented cases -> the negation must be unsat under the path condition
        if N == 0:
            ok = (i == 0)
            res.add_raw(pk, "holds" if ok else "violated", "empty range returns end()")
            continue
        if i == N:       # end(): requires t < r.front()
            goal = Cond("cmp", t, r[0], "olt")
        elif i == N - 1:  # last: t >= r.back()  OR (N>=2 and r[N-2] <= t < r[N-1]) impossible: index N-1 = end()-1 only for case 3
            goal = Cond("cmp", t, r[N - 1], "oge")
        else:
            goal = Cond("and", Cond("cmp", r[i], t, "ole"), Cond("cmp", t, r[i + 1], "olt"))
        okq = solver.entails(p.pc, goal, True, asm, timeout_ms=5000)
        if okq:
            res.add_raw(pk, "holds", "z3: path condition entails the documented case for returned index %d" % i)
            continue
        # candidate: model of (path condition & not documented case), replayed on the native build
        z = solver.Z()
        fs, atoms = [], set()
        for c_, pol in asm + p.pc + [(goal, False)]:
            f, side = z.cond(c_, pol)
            fs.append(f)
            fs += side
            solver.cond_atoms(c_, atoms)
        rs, m, dt = solver.check(fs, 8000, want_model=True)
        w = None
        if rs == "sat":
            vals = solver.model_values(z, m)
            env = {T.ATOM_LIST[a_][1]: v_ for a_, v_ in vals.items() if T.ATOM_LIST[a_][0] == "sym"}
            inp = [env.get("r%d" % q, 0.0) for q in range(N)] + [env.get("t", 0.0)]
            got = int(h.native(fn, inp, 1)[0])
            rr, tt = inp[:N], inp[N]
            if tt < rr[0]:
                want = N
            elif tt >= rr[-1]:
                want = N - 1
            else:
                want = max(q for q in range(N - 1) if rr[q] <= tt < rr[q + 1]) if any(rr[q] <= tt < rr[q + 1] for q in range(N - 1)) else None
            if want is not None and got != want:
                w = (inp, got, want)
        if w:
            res.add_raw(pk, "violated", "z3 model replayed natively: range %r query %r returns index %d, documented cases give %d" % (w[0][:N], w[0][N], w[1], w[2]))
            if not any(x["key"] == "binary_interval_search/N%d" % N for x in res.violations):
                res.violations.append({"key": "binary_interval_search/N%d" % N, "what": "binary_interval_search(%r, %r) returns index %d, the documented cases require %d" % (w[0][:N], w[0][N], w[1], w[2]),
                                       "replay": {"property": PID, "key": "binary_interval_search/N%d" % N, "tu_name": h.name, "tu_text": h.text, "fn": fn, "inputs": w[0], "nout": 1,
                                                  "native": [float(w[1])], "obligation": "documented cases", "lhs": str(w[1]), "rhs": str(w[2]), "err": 1.0, "tol": 0.0}})
        else:
            res.add_raw(pk, "undecided", "documented case for index %d not entailed (z3 %s) and no native counterexample" % (i, rs))
    res.bounds.add("binary_interval_search: every sorted range (repeats allowed) of length %d and every query, reals" % N)
    return res


def job_iap(Ks, KL, NS, tier, part=0, nparts=1):
    """integrate_absolute_polynomial against the root-splitting definition"""
    T.reset_terms()
    res = check.Result()
    h = check.Harness("poly_" + tier, tu_text(Ks, KL, NS))
    t0, t1, A, B, C = [T.Sym(n) for n in ("t0", "t1", "A", "B", "C")]
    box = [(t0, 0, 1), (t1, 0, 1), (A, -1000, 1000), (B, -1000, 1000), (C, -1000, 1000)]
    asm = [(Cond("cmp", t0, t1, "ole"), True)]
    for s_, lo, hi in box:
        asm += [(Cond("cmp", s_, T.Const(lo), "oge"), True), (Cond("cmp", s_, T.Const(hi), "ole"), True)]

    def sampler(k):
        r = random.Random(k)
        a, b = sorted([r.uniform(0, 1), r.uniform(0, 1)])
        return [a, b, r.choice([0.0, 1e-10, r.uniform(-5, 5)]), r.choice([0.0, r.uniform(-5, 5)]), r.uniform(-5, 5)]
    res.functions.add("iap")
    if part == 0:
        res.validated += h.validate("iap", sampler, 1, 20)
    ex = engine.Explorer(h.mod, assumptions=asm, max_paths=600, feas_timeout_ms=1500)
    paths = ex.explore("iap", [t0, t1, A, B, C], 1)
    res.note_paths(paths, ex)
    mp = check.mpmath()
    # per path: the result E must equal int |p| ; oracle V defined through the TRUE sign pattern:
    #   V >= 0, and V = sum over the (at most 3) sign-constant pieces.  Posed to z3 with the real roots as existential variables.
    z = solver.Z()
    for pi, p in enumerate(paths):
        pk = "integrate_absolute_polynomial/path%d" % pi
        if pi % nparts != part:
            continue
        if p.status != "ok":
            res.add_raw(pk, "undecided", "%s: %s" % (p.status, p.reason))
            continue
        E = p.outs[0]
        fs = []
        atoms = set()
        for c, pol in asm + p.pc:
            f, side = z.cond(c, pol)
            fs.append(f)
            fs += side
            solver.cond_atoms(c, atoms)
        n, d = T.nf(E)
        atoms |= T.p_vars(n) | T.p_vars(d)
        fs += solver.atom_axioms(z, atoms)
        e = z3.Real("E")
        fs.append(e * z.poly(d) == z.poly(n))
        a_, b_, c_, x0, x1 = [z.atom(G.atom_of(s_)) for s_ in (A, B, C, t0, t1)]
        I = lambda x: a_ * x * x * x / 3 + b_ * x * x / 2 + c_ * x
        pv = lambda x: a_ * x * x + b_ * x + c_
        # true value V via a certificate: split points s1 <= s2 in [t0,t1] such that p has constant sign on each piece
        s1, s2, V = z3.Real("s1"), z3.Real("s2"), z3.Real("V")
        sg = [z3.Real("sg%d" % k) for k in range(3)]
        cert = [x0 <= s1, s1 <= s2, s2 <= x1, V == sg[0] * (I(s1) - I(x0)) + sg[1] * (I(s2) - I(s1)) + sg[2] * (I(x1) - I(s2))]
        for k in range(3):
            cert.append(z3.Or(sg[k] == 1, sg[k] == -1))
        # sign constancy on a piece [l,r] of a quadratic: endpoints have sign sg and no interior root: certified by
        # sg*p(l) >= 0, sg*p(r) >= 0 and (vertex outside (l,r) or sg*p(vertex) >= 0)
        def piece(l, r_, s):
            vert = z3.Or(a_ == 0, -b_ <= 2 * a_ * l if False else z3.BoolVal(False))
            return [s * pv(l) >= 0, s * pv(r_) >= 0,
                    z3.Or(a_ == 0, z3.And(a_ > 0, z3.Or(-b_ <= 2 * a_ * l, -b_ >= 2 * a_ * r_)), z3.And(a_ < 0, z3.Or(-b_ >= 2 * a_ * l, -b_ <= 2 * a_ * r_)),
                          s * (4 * a_ * c_ - b_ * b_) * a_ >= 0)]
        cert += piece(x0, s1, sg[0]) + piece(s1, s2, sg[1]) + piece(s2, x1, sg[2])
        tol = solver.zfrac(TOL)
        rs, m, dt = solver.check(fs + cert + [z3.Or(e - V > tol, V - e > tol)], 8000 if tier == "quick" else 120000, want_model=True)
        if rs == "unsat":
            res.add_raw(pk, "holds", "z3 NRA: no inputs on this path and sign-pattern certificate with |E - int|p|| > 1e-9", dt)
        elif rs == "sat":
            vals = {str(v): m.eval(v, model_completion=True) for v in (x0, x1, a_, b_, c_)}
            def tofl(v):
                try:
                    return float(Fraction(v.numerator_as_long(), v.denominator_as_long()))
                except Exception:
                    return float(str(v.approx(17)).rstrip("?"))
            inp = [tofl(m.eval(v, model_completion=True)) for v in (x0, x1, a_, b_, c_)]
            got = h.native("iap", inp, 1)[0]
            f = lambda x: abs(inp[2] * x * x + inp[3] * x + inp[4])
            want = float(mp.quad(f, [inp[0], inp[1]])) if inp[0] < inp[1] else 0.0
            # refine reference by root splitting in mp
            want = float(ref_integral(mp, *inp))
            if abs(got - want) > 1e-9:
                res.add_raw(pk, "violated", "z3 model reproduced natively: got %r want %r at %r" % (got, want, inp), dt)
                res.violations.append({"key": "integrate_absolute_polynomial", "what": "integrate_absolute_polynomial%r = %r, exact %r" % (tuple(inp), got, want),
                                       "replay": {"property": PID, "key": "integrate_absolute_polynomial", "tu_name": h.name, "tu_text": h.text, "fn": "iap", "inputs": inp, "nout": 1,
                                                  "native": [got], "rhs": str(want), "lhs": str(got), "err": abs(got - want), "tol": 1e-9, "obligation": "iap"}})
            else:
                w = iap_search(h, mp, asm + p.pc)
                if w is None:
                    res.add_raw(pk, "undecided", "z3 model not reproduced natively (got %r, want %r at %r); no witness among the root-configuration strata" % (got, want, inp), dt)
                else:
                    iap_violation(res, h, pk, w, dt)
        else:
            # NRA query undecided: search the path for a witness over stratified root configurations (replayed natively against the 50-digit reference)
            w = iap_search(h, mp, asm + p.pc)
            if w is None:
                res.add_raw(pk, "undecided", "z3 %s; no witness among the root-configuration strata on this path" % rs, dt)
            else:
                iap_violation(res, h, pk, w, dt)
    res.bounds.add("integrate_absolute_polynomial: [t0,t1] within [0,1], |A|,|B|,|C| <= 1e3")
    return res


def iap_strata():
    """inputs stratified by where the real roots lie relative to [t0,t1] (left/left, left/inside, inside/inside, inside/right, right/right,
    straddling, double root, none), plus linear and constant polynomials; all inside the check's box"""
    out = []
    r = random.Random(5)
    ivs = [(0.5, 1.0), (0.25, 0.5), (0.0, 1.0), (0.4, 0.6), (0.0, 0.3)]
    for t0, t1 in ivs:
        w = t1 - t0
        cands = [(t0 - 0.4, t0 - 0.1), (t0 - 0.2, t0 + w / 3), (t0 + w / 4, t0 + w / 2), (t0 + w / 2, t1 + 0.2), (t1 + 0.1, t1 + 0.5), (t0 - 0.3, t1 + 0.3),
                 (t0 + w / 2, t0 + w / 2), (t0, t1), (t0 - 0.1, t0)]
        for r1, r2 in cands:
            for a in (1.0, -3.0, 250.0):
                out.append([t0, t1, a, -a * (r1 + r2), a * r1 * r2])
        for a in (2.0, -0.5):
            out.append([t0, t1, a, 0.3 * a, a * (0.0225 + 0.7)])     # no real roots
        for b, c in ((1.0, -(t0 + w / 2)), (-2.0, 2.0 * (t0 - 0.3)), (0.0, 1.5), (0.0, 0.0)):
            out.append([t0, t1, 0.0, b, c])
    for _ in range(60):
        a, b = sorted([r.uniform(0, 1), r.uniform(0, 1)])
        out.append([a, b, r.uniform(-5, 5), r.uniform(-5, 5), r.uniform(-5, 5)])
    return out


def iap_search(h, mp, pc):
    for inp in iap_strata():
        env = dict(zip(("t0", "t1", "A", "B", "C"), inp))
        if not check.pc_holds(pc, env):
            continue
        got = h.native("iap", inp, 1)[0]
        want = float(ref_integral(mp, *inp))
        if not (abs(got - want) <= 1e-9 * max(1.0, abs(want))):
            return inp, got, want
    return None


def iap_violation(res, h, pk, w, dt):
    inp, got, want = w
    res.add_raw(pk, "violated", "witness on this path reproduced natively: got %r want %r at %r" % (got, want, inp), dt)
    if not any(v["key"] == "integrate_absolute_polynomial" for v in res.violations):
        res.violations.append({"key": "integrate_absolute_polynomial", "what": "integrate_absolute_polynomial%r = %r, exact %r" % (tuple(inp), got, want),
                               "replay": {"property": PID, "key": "integrate_absolute_polynomial", "tu_name": h.name, "tu_text": h.text, "fn": "iap", "inputs": inp, "nout": 1,
                                          "native": [got], "rhs": str(want), "lhs": str(got), "err": abs(got - want), "tol": 1e-9, "obligation": "iap"}})


def ref_integral(mp, t0, t1, A, B, C):
    pts = [mp.mpf(t0), mp.mpf(t1)]
    A, B, C = mp.mpf(A), mp.mpf(B), mp.mpf(C)
    roots = []
    if A != 0:
        disc = B * B - 4 * A * C
        if disc > 0:
            roots = [(-B - mp.sqrt(disc)) / (2 * A), (-B + mp.sqrt(disc)) / (2 * A)]
    elif B != 0:
        roots = [-C / B]
    for r in roots:
        if pts[0] < r < pts[1]:
            pts.append(r)
    pts.sort()
    I = lambda x: A * x ** 3 / 3 + B * x ** 2 / 2 + C * x
    return sum(abs(I(b) - I(a)) for a, b in zip(pts, pts[1:]))


def main(tier):
    run = check.Run(PID, tier)
    Ks = list(range(0, 7)) if tier == "quick" else list(range(0, 11))
    KL = [1, 2, 3, 5, 8] if tier == "quick" else list(range(1, 17))
    NS = [0, 1, 2, 3, 4] if tier == "quick" else [0, 1, 2, 3, 4, 5, 6]
    check.run_jobs([(_compile, (Ks, KL, NS, tier))])
    jobs = [(job_bases, (Ks, KL, NS, tier))] + [(job_iap, (Ks, KL, NS, tier, i, 10)) for i in range(10)] + [(job_search, (N, Ks, KL, NS, tier)) for N in NS]
    run.extend(check.run_jobs(jobs, timeout=1200 if tier == "quick" else 1800))
    run.assumptions += ["constants are read as the simplest rational within half an ulp", "search ranges: finite reals, sorted (repeats allowed); +-inf/NaN excluded",
                        "CBMC bit-precise lane for the search (DESIGN 2.9) not built; the search is decided in layer R"]
    return run.finish()


def _compile(Ks, KL, NS, tier):
    check.Harness("poly_" + tier, tu_text(Ks, KL, NS))
    return check.Result()
