"""C03: hat, vee, Ad, ad, lie_bracket are the adjoint representation (DESIGN 4/C03)."""
import random
from symx import terms as T, groups as G, check
from . import grouptu

PID = "C03"
TOL = 1e-10


def rnd_tangent(g, k, scale=2.0):
    r = random.Random(k)
    return [r.uniform(-scale, scale) for _ in range(g.dof)]


def job(g, fn, tier):
    T.reset_terms()
    res = check.Result()
    h = grouptu.harness(g)
    t = grouptu.tag(g)
    key = "%s/%s" % (t, fn)
    a = G.syms("a", g.dof)
    b = G.syms("b", g.dof)
    gs = G.syms("g", g.rep)
    kw = dict(pid=PID, tol=TOL, timeout_ms=10000 if tier == "quick" else 60000)
    n = g.dim
    if fn == "hat":
        check.check_wrapper(res, h, t + "_hat", a, n * n, lambda ins: G.flat(g.hat(ins)), key, sampler=lambda k: rnd_tangent(g, k), **kw)
    elif fn == "vee":
        A = G.flat(g.hat(a))
        check.check_wrapper(res, h, t + "_vee", A, g.dof, lambda ins: a, key,
                            sampler=lambda k: [float(T.evaluate(x, dict(zip(["a%d" % i for i in range(g.dof)], rnd_tangent(g, k))))) for x in A], **kw)
        res.axioms.add("vee is checked on the documented algebra (image of hat); hat(vee A)=A there follows from vee(hat a)=a and injectivity of hat")
    elif fn == "Ad":
        def obl(ins, outs):
            Adm = [outs[i * g.dof:(i + 1) * g.dof] for i in range(g.dof)]
            Ada = G.mv(Adm, a)
            M = g.docM(ins)
            L = G.mm(g.hat(Ada), M)
            R = G.mm(M, g.hat(a))
            return [("conj%d%d" % (i, j), L[i][j], R[i][j]) for i in range(n) for j in range(n)]
        check.check_wrapper(res, h, t + "_Ad", gs, g.dof * g.dof, None, key, obligations=obl,
                            sampler=lambda k: g.random_element(random.Random(k), 5.0), rules=g.rules(gs), **kw)
        res.axioms.add("Ad(g)a = vee(M hat(a) M^-1) posed as hat(Ad a) M = M hat(a) (M invertible by C01)")
    elif fn == "ad":
        def obl(ins, outs):
            adm = [outs[i * g.dof:(i + 1) * g.dof] for i in range(g.dof)]
            adb = G.mv(adm, b)
            A, B = g.hat(ins), g.hat(b)
            C = G.msub(G.mm(A, B), G.mm(B, A))
            L = g.hat(adb)
            return [("comm%d%d" % (i, j), L[i][j], C[i][j]) for i in range(n) for j in range(n)]
        check.check_wrapper(res, h, t + "_ad", a, g.dof * g.dof, None, key, obligations=obl, sampler=lambda k: rnd_tangent(g, k), **kw)
    elif fn == "bracket":
        def obl(ins, outs):
            A, B = g.hat(ins[:g.dof]), g.hat(ins[g.dof:])
            C = G.msub(G.mm(A, B), G.mm(B, A))
            L = g.hat(outs)
            return [("comm%d%d" % (i, j), L[i][j], C[i][j]) for i in range(n) for j in range(n)]
        check.check_wrapper(res, h, t + "_bracket", a + b, g.dof, None, key, obligations=obl,
                            sampler=lambda k: rnd_tangent(g, k) + rnd_tangent(g, k + 77), **kw)
    return res


def _compile(g):
    grouptu.harness(g)
    return check.Result()


def main(tier):
    run = check.Run(PID, tier)
    groups = list(G.BASIC.values()) + grouptu.bundle_shapes(tier)
    check.run_jobs([(_compile, (g,)) for g in groups])
    jobs = [(job, (g, fn, tier)) for g in groups for fn in ["hat", "vee", "Ad", "ad", "bracket"]]
    run.extend(check.run_jobs(jobs))
    run.bounds += ["groups: " + ", ".join(g.name for g in groups), "all group elements / tangent pairs (layer R, unit-norm constraints only)"]
    run.assumptions += ["layer R (exact real arithmetic)", "Ad(g1 g2)=Ad(g1)Ad(g2), antisymmetry and Jacobi are corollaries of the conjugation/commutator identities by matrix algebra",
                        "Ad(exp a) = expm(ad a) is decided under C02/C04 (Hermite oracle)"]
    return run.finish()
