"""C02: exp is the matrix exponential; log its principal inverse (DESIGN 4/C02)."""
import random, math
from fractions import Fraction
from symx import terms as T, groups as G, check, solver, oracles as O
from symx.interp import Cond
from . import grouptu

PID = "C02"
TOL = 1e-9
THRESH = [Fraction(1, 10**8), Fraction(1, 10**7), Fraction(1, 10**6), Fraction(1, 10**5), Fraction(1, 10**4), Fraction(1, 10**3), Fraction(1, 100)]
LBOX = [1000]  # translation magnitude box for the series-path bound queries.  The tolerance is ABSOLUTE (tol times a guaranteed lower
# bound of the largest entry of the exact result: 1 for group matrices / Jacobians near the identity, 1/2 for Hessians), which is the
# sound direction: a failed bound is only a candidate and goes to the native replay, which applies the true relative criterion


def tangent_sampler(g, scale_rot=None, well_conditioned=False):
    """stratified over the rotation norm: generic, around the small-angle switch, near pi.
    well_conditioned=True (used for validating the TRANSLATOR, not the library) skips the window just above the
    series switch where the library's own closed forms cancel and two correct compilations legitimately differ."""
    def s(k):
        r = random.Random(k)
        tscale = 3.0 if (k // 16) % 2 == 0 or well_conditioned else 1000.0   # moderate and large translation magnitudes
        a = [r.uniform(-tscale, tscale) for _ in range(g.dof)]
        strata = [None, 1e-12, 1e-6, 0.99e-4, 1.01e-4, 3e-4, 1e-3, 1e-2, 0.5, 3.0, math.pi - 1e-9, math.pi + 1e-9, 7.0, 12.0, 25.0, 45.0]
        if well_conditioned:
            strata = [None, 1e-12, 1e-6, 0.5, 2.0, 3.0]
        tgt = strata[k % len(strata)]
        for blk, ro, do, mo in O.group_blocks(g):
            idx = [do + i for i in blk.rot]
            if blk.name == "C1":
                # coordinate 0 of C1 is the LOG of the scale: exp(+-1000) is not a double.  Bound |log scale| <= 3 (stated)
                a[do] = r.uniform(-3.0, 3.0)
            if not idx:
                continue
            if tgt is None:
                tgt = r.uniform(0.1, 3.0)
            n = math.sqrt(sum(a[i] ** 2 for i in idx)) or 1.0
            for i in idx:
                a[i] = a[i] / n * tgt
        return a
    return s


def regimes(g, a, p, assumptions=()):
    """per leaf block: ('series', T) if the path condition bounds theta^2 by T, else ('closed', None)"""
    pc = p if isinstance(p, list) else p.pc
    out = {}
    for bi, (blk, ro, do, mo) in enumerate(O.group_blocks(g)):
        if not blk.rot:
            out[bi] = ("closed", None)
            continue
        ang = O.Angle([a[do + i] for i in blk.rot])
        T_ = solver.sup_threshold(pc, ang.t, THRESH, assumptions)
        out[bi] = ("series", T_) if T_ is not None else ("closed", None)
    return out


def job_exp(g, tier):
    T.reset_terms()
    res = check.Result()
    h = grouptu.harness(g)
    t = grouptu.tag(g)
    key = "%s/exp" % t
    a = G.syms("a", g.dof)
    n = g.dim
    blocks = O.group_blocks(g)
    xis = {bi: {m: T.Sym("xi%d_%d" % (bi, m)) for m in range(1, 6)} for bi in range(len(blocks))}

    def block_of(i):
        for bi, (blk, ro, do, mo) in enumerate(blocks):
            if mo <= i < mo + blk.dim:
                return bi
        return None

    def obl(ins, outs):
        L = g.docM(outs)
        R = O.exp_oracle(g, ins, "closed")
        return [("M%d_%d" % (i, j), L[i][j], R[i][j]) for i in range(n) for j in range(n)]

    def per_path(p, obls):
        reg = regimes(g, a, p)
        if all(r[0] == "closed" for r in reg.values()):
            return {}
        Rs = O.exp_oracle(g, a, {bi: ("series" if r[0] == "series" else "closed") for bi, r in reg.items()}, xis, nterms=3)
        hd = {}
        for i in range(n):
            for j in range(n):
                bi = block_of(i)
                if bi is None or block_of(j) != bi or reg[bi][0] != "series":
                    continue
                hd["M%d_%d" % (i, j)] = series_handler(g, a, blocks, bi, reg[bi][1], Rs[i][j], xis[bi], res)
        return hd

    check.check_wrapper(res, h, t + "_exp", a, g.rep, None, key, obligations=obl, per_path=per_path, tol=TOL, pid=PID,
                        sampler=tangent_sampler(g), timeout_ms=10000 if tier == "quick" else 60000, nvalidate=14)
    # spectrum obligation of the Hermite oracle: X^3 (X^2 + theta^2) = 0 for X = hat(a) of every leaf group
    for bi, (blk, ro, do, mo) in enumerate(blocks):
        if not blk.rot or blk.name == "C1":
            continue
        ab = a[do:do + blk.dof]
        X = blk.hat(ab)
        ang = O.Angle([ab[i] for i in blk.rot])
        Rm = O.minpoly_residual(X, ang.t, 3)
        worst = None
        for row in Rm:
            for e in row:
                v = solver.check_identity(T.nf(e))
                if v.status != "holds":
                    worst = v
        res.add("%s/hermite-spectrum/block%d" % (key, bi), worst or solver.Verdict("holds", "z3 (all %d entries)" % (len(Rm) ** 2)))
    res.axioms.add("exp oracle: expm(X) = I + X + X^2/2 + g3(th) X^3 + g4(th) X^4, valid because X^3(X^2+th^2)=0 is discharged per group")
    res.axioms.add("series paths: g_m(th) = sum_{k<3} (-1)^k th^2k/(2k+m)! + xi th^6/(6+m)!, |xi|<=1 (alternating series, th^2<=1)")
    return res


def polar(num, den, g, a, reg):
    """a_i = theta*u_i for the rotation components of 3-dim rotation blocks in the series regime (|u_i|<=1, theta the
    block's sqrt atom): lets the monomial-content cancellation remove common theta powers; theta^2 rule NOT applied"""
    sub = {}
    for bi, (blk, ro, do, mo) in enumerate(O.group_blocks(g)):
        if reg[bi][0] != "series" or len(blk.rot) != 3:
            continue
        ang = O.Angle([a[do + i] for i in blk.rot])
        th = T.nf(ang.theta)[0]
        for i in blk.rot:
            ai = G.atom_of(a[do + i])
            ui = T.nf(T.Sym("u!%d" % (do + i)))[0]
            sub[ai] = T.p_mul(th, ui)
    if sub:
        num = T.p_subst(num, sub)
        den = T.p_subst(den, sub)
        urules = []
        for bi, (blk, ro, do, mo) in enumerate(O.group_blocks(g)):
            if reg[bi][0] == "series" and len(blk.rot) == 3:
                urules.append(G.unit_rule([T.Sym("u!%d" % (do + i)) for i in blk.rot]))
        num = T.reduce_poly(num, None, urules)
        den = T.reduce_poly(den, None, urules)
    num, den = T.cancel_content(num, den)
    return T.rf_norm(num, den)


def series_residual(term, g, a, reg):
    num, den = T.nf(term)
    num, _ = solver.enclose_trig(num)
    den, _ = solver.enclose_trig(den)
    num, den = polar(num, den, g, a, reg)
    return num, den


def series_box(num, den, g, reg, L):
    small = {}
    th_small = {}
    for bi, (blk, ro, do, mo) in enumerate(O.group_blocks(g)):
        if reg[bi][0] == "series":
            amax = Fraction(math.isqrt(int(reg[bi][1] * 10**16)) + 1, 10**8)
            for i in blk.rot:
                small["a%d" % (do + i)] = amax
    rotnames = {"a%d" % (do + i) for blk, ro, do, mo in O.group_blocks(g) for i in blk.rot}
    pre = {}
    for bi, (blk, ro, do, mo) in enumerate(O.group_blocks(g)):
        if reg[bi][0] == "series" and len(blk.rot) == 3:
            th = T.nf(O.Angle([T.Sym("a%d" % (do + i)) for i in blk.rot]).theta)[0]
            (m, _), = th.items()
            pre[m[0][0]] = (Fraction(0), Fraction(math.isqrt(int(reg[bi][1] * 10**16)) + 1, 10**8))

    def sym_box(nm):
        if nm.startswith("xi") or nm.startswith("xe!") or nm.startswith("u!"):
            return (Fraction(-1), Fraction(1))
        if nm in small:
            return (-small[nm], small[nm])
        if nm in rotnames:
            return (Fraction(-4), Fraction(4))
        return (Fraction(-L), Fraction(L))
    return solver.box_for([num, den], sym_box, pre)


def series_handler(g, a, blocks, bi, Tmax, oracle_entry, xi, res):
    blk, ro, do, mo = blocks[bi]
    rot_names = {"a%d" % (do + i) for i in blk.rot}
    amax = Fraction(math.isqrt(int(Tmax * 10**16)) + 1, 10**8)

    def hd(name, lhs, rhs_ignored, p):
        reg = {k: ("closed", None) for k in range(len(blocks))}
        reg[bi] = ("series", Tmax)
        num, den = series_residual(T.Sub(lhs, oracle_entry), g, a, reg)
        worst = None
        for L in LBOX:
            box = series_box(num, den, g, reg, L)
            if box is None:
                return solver.Verdict("undecided", "series path with an atom that cannot be enclosed")
            v = solver.check_bound(num, box, Fraction(TOL), den_poly=None if T.p_is_const(den) else den, max_split=12)
            res.bounds.add("series-path boxes: |rot a| <= sqrt(T) (T from the path condition, here %s), translations <= %s, absolute tol %g" % (Tmax, LBOX, TOL))
            if v.status != "holds":
                return v
            worst = v
        return worst
    return hd

    check.check_wrapper(res, h, t + "_exp", a, g.rep, None, key, obligations=obl, per_path=per_path, tol=TOL, pid=PID,
                        sampler=tangent_sampler(g), timeout_ms=10000 if tier == "quick" else 60000, nvalidate=14)
    # spectrum obligation of the Hermite oracle: X^3 (X^2 + theta^2) = 0 for X = hat(a) of every leaf group
    for bi, (blk, ro, do, mo) in enumerate(blocks):
        if not blk.rot or blk.name == "C1":
            continue
        ab = a[do:do + blk.dof]
        X = blk.hat(ab)
        ang = O.Angle([ab[i] for i in blk.rot])
        Rm = O.minpoly_residual(X, ang.t, 3)
        worst = None
        for row in Rm:
            for e in row:
                v = solver.check_identity(T.nf(e))
                if v.status != "holds":
                    worst = v
        res.add("%s/hermite-spectrum/block%d" % (key, bi), worst or solver.Verdict("holds", "z3 (all %d entries)" % (len(Rm) ** 2)))
    res.axioms.add("exp oracle: expm(X) = I + X + X^2/2 + g3(th) X^3 + g4(th) X^4, valid because X^3(X^2+th^2)=0 is discharged per group")
    res.axioms.add("series paths: g_m(th) = sum_{k<3} (-1)^k th^2k/(2k+m)! + xi th^6/(6+m)!, |xi|<=1 (alternating series, th^2<=1)")
    return res


def polar(num, den, g, a, reg):
    """a_i = theta*u_i for the rotation components of 3-dim rotation blocks in the series regime (|u_i|<=1, theta the
    block's sqrt atom): lets the monomial-content cancellation remove common theta powers; theta^2 rule NOT applied"""
    sub = {}
    for bi, (blk, ro, do, mo) in enumerate(O.group_blocks(g)):
        if reg[bi][0] != "series" or len(blk.rot) != 3:
            continue
        ang = O.Angle([a[do + i] for i in blk.rot])
        th = T.nf(ang.theta)[0]
        for i in blk.rot:
            ai = G.atom_of(a[do + i])
            ui = T.nf(T.Sym("u!%d" % (do + i)))[0]
            sub[ai] = T.p_mul(th, ui)
    if sub:
        num = T.p_subst(num, sub)
        den = T.p_subst(den, sub)
        urules = []
        for bi, (blk, ro, do, mo) in enumerate(O.group_blocks(g)):
            if reg[bi][0] == "series" and len(blk.rot) == 3:
                urules.append(G.unit_rule([T.Sym("u!%d" % (do + i)) for i in blk.rot]))
        num = T.reduce_poly(num, None, urules)
        den = T.reduce_poly(den, None, urules)
    num, den = T.cancel_content(num, den)
    return T.rf_norm(num, den)


def series_residual(term, g, a, reg):
    num, den = T.nf(term)
    num, _ = solver.enclose_trig(num)
    den, _ = solver.enclose_trig(den)
    num, den = polar(num, den, g, a, reg)
    return num, den


def series_box(num, den, g, reg, L):
    small = {}
    th_small = {}
    for bi, (blk, ro, do, mo) in enumerate(O.group_blocks(g)):
        if reg[bi][0] == "series":
            amax = Fraction(math.isqrt(int(reg[bi][1] * 10**16)) + 1, 10**8)
            for i in blk.rot:
                small["a%d" % (do + i)] = amax
    rotnames = {"a%d" % (do + i) for blk, ro, do, mo in O.group_blocks(g) for i in blk.rot}
    pre = {}
    for bi, (blk, ro, do, mo) in enumerate(O.group_blocks(g)):
        if reg[bi][0] == "series" and len(blk.rot) == 3:
            th = T.nf(O.Angle([T.Sym("a%d" % (do + i)) for i in blk.rot]).theta)[0]
            (m, _), = th.items()
            pre[m[0][0]] = (Fraction(0), Fraction(math.isqrt(int(reg[bi][1] * 10**16)) + 1, 10**8))

    def sym_box(nm):
        if nm.startswith("xi") or nm.startswith("xe!") or nm.startswith("u!"):
            return (Fraction(-1), Fraction(1))
        if nm in small:
            return (-small[nm], small[nm])
        if nm in rotnames:
            return (Fraction(-4), Fraction(4))
        return (Fraction(-L), Fraction(L))
    return solver.box_for([num, den], sym_box, pre)


def series_handler(g, a, blocks, bi, Tmax, oracle_entry, xi, res):
    blk, ro, do, mo = blocks[bi]
    rot_names = {"a%d" % (do + i) for i in blk.rot}
    amax = Fraction(math.isqrt(int(Tmax * 10**16)) + 1, 10**8)

    def hd(name, lhs, rhs_ignored, p):
        rf = T.nf(T.Sub(lhs, oracle_entry))
        num, den = rf
        num, _ = solver.enclose_trig(num)
        den, _ = solver.enclose_trig(den)
        num, den = T.rf_norm(num, den)
        rules = solver.sqrt_rules()
        num = solver.reduce_poly(num, {}, rules)
        den = solver.reduce_poly(den, {}, rules)
        worst = None
        for L in LBOX:
            def sym_box(nm):
                if nm.startswith("xi") or nm.startswith("xe!"):
                    return (Fraction(-1), Fraction(1))
                if nm in rot_names:
                    return (-amax, amax)
                return (Fraction(-L), Fraction(L))
            box = solver.box_for([num, den], sym_box)
            if box is None:
                return solver.Verdict("undecided", "series path with an atom that cannot be enclosed")
            v = solver.check_bound(num, box, Fraction(TOL), den_poly=None if T.p_is_const(den) else den, max_split=12)
            res.bounds.add("series-path boxes: |rot a_i| <= sqrt(T) (T from the path condition, here %s), translations <= %s, absolute tol %g" % (Tmax, LBOX, TOL))
            if v.status != "holds":
                return v
            worst = v
        return worst
    return hd


PI2_LO = Fraction(98696, 10000)  # < pi^2


def declare_small_angle(g, a):
    """axiom instances for tangents with rotation norm < pi: for every leaf block, u = theta/2 in [0, pi/2):
    sin u >= 0, cos u >= 0, u principal; (1-dim rotations: Omega in (-pi, pi) principal, cos(Omega/2) >= 0)"""
    asm = []
    for blk, ro, do, mo in O.group_blocks(g):
        if not blk.rot:
            continue
        w = [a[do + i] for i in blk.rot]
        ang = O.Angle(w)
        asm.append((Cond("cmp", ang.t, T.Const(PI2_LO), "olt"), True))
        half = T.Mul(ang.theta, T.Const(Fraction(1, 2)))
        alt = T.Div(ang.theta, T.Const(2))
        for u in (half, ang.theta):
            T.CTX.principal.add(T.rf_key(T.nf(u)))
        ch = T.Fn("cos", half)
        asm.append((Cond("cmp", ch, T.Const(0), "oge"), True))
        if len(w) == 3:
            sh = T.Fn("sin", half)
            asm.append((Cond("cmp", sh, T.Const(0), "oge"), True))
            # concavity of sin on [0, pi/2]:  sin u >= (2/pi) u > (7/11) u
            asm.append((Cond("cmp", sh, T.Mul(T.Const(Fraction(7, 11)), half), "oge"), True))
            (m, _), = T.nf(sh)[0].items()
            T.CTX.nonneg.add(m[0][0])
    return asm


def job_logexp(g, tier):
    """log(exp(a)) = a for rotation norm < pi: the real log is run on the symbolic output of the real exp"""
    T.reset_terms()
    res = check.Result()
    h = grouptu.harness(g)
    t = grouptu.tag(g)
    key = "%s/log-exp" % t
    a = G.syms("a", g.dof)
    asm = declare_small_angle(g, a)
    from symx import engine
    ex = engine.Explorer(h.mod, assumptions=asm)
    p1s = ex.explore(t + "_exp", a, g.rep)
    res.note_paths(p1s, ex)
    res.functions.update([t + "_exp", t + "_log"])
    n_ok = 0
    for i1, p1 in enumerate(p1s):
        if p1.status != "ok":
            res.notes.append("%s exp path %d: %s %s" % (key, i1, p1.status, p1.reason))
            continue
        ex2 = engine.Explorer(h.mod, assumptions=asm + p1.pc)
        p2s = ex2.explore(t + "_log", p1.outs, g.dof)
        res.note_paths(p2s, ex2)
        for i2, p2 in enumerate(p2s):
            pk = "%s/path%d.%d" % (key, i1, i2)
            if p2.status != "ok":
                res.add_raw(pk, "undecided", "log path %s: %s" % (p2.status, p2.reason))
                continue
            n_ok += 1
            reg = regimes(g, a, p1.pc + p2.pc, asm)
            series = any(r[0] == "series" for r in reg.values())
            for k in range(g.dof):
                try:
                    if series:
                        with T.time_budget(20 if tier == "quick" else 240):
                            v = series_roundtrip(T.Sub(p2.outs[k], a[k]), g, a, reg, res, relative=True)
                    else:
                        with T.time_budget(20 if tier == "quick" else 240):
                            v = solver.check_identity(T.nf(T.Sub(p2.outs[k], a[k])), pc=p1.pc + p2.pc, assumptions=asm)
                except (T.PolyTooBig, MemoryError):
                    v = solver.Verdict("undecided", "normal form too large")
                if v.status in ("violated", "undecided"):
                    w = roundtrip_witness(h, t, g, "log-exp", k, tangent_sampler(g))
                    if w:
                        v.status = "violated"
                        res.add("%s/a%d" % (pk, k), v)
                        if not any(x["key"] == "%s/a%d" % (key, k) for x in res.violations):
                            res.violations.append({"key": "%s/a%d" % (key, k), "what": "log(exp(a)) != a: " + w["what"], "replay": w})
                        continue
                    v.status = "undecided"
                    v.how += " ; not reproduced natively"
                res.add("%s/a%d" % (pk, k), v)
    if not n_ok:
        res.errors.append(key + ": vacuous")
    res.axioms.update(set(T.CTX.log))
    res.axioms.add("rotation norm < pi: u=theta/2 in [0,pi/2) => sin u >= 0, cos u >= 0, atan2(sin u, cos u) = u")
    return res


def divide_by_angle(num, g, a, reg):
    """num / theta for the (single) rotation block in the series regime, if theta divides every monomial (it does whenever the residual
    vanishes at zero rotation); returns (quotient, True) or (num, False)"""
    blocks = [(blk, do) for bi, (blk, ro, do, mo) in enumerate(O.group_blocks(g)) if reg[bi][0] == "series" and blk.rot]
    if len(blocks) != 1:
        return num, False
    blk, do = blocks[0]
    if len(blk.rot) == 3:
        (m, _), = T.nf(O.Angle([a[do + i] for i in blk.rot]).theta)[0].items()
        var = m[0][0]
    else:
        var = G.atom_of(a[do + blk.rot[0]])
    out = {}
    for m, c in num.items():
        mm = dict(m)
        if mm.get(var, 0) < 1:
            return num, False
        mm[var] -= 1
        out[tuple(sorted((v, e) for v, e in mm.items() if e))] = c
    return out, True


def series_roundtrip(term, g, a, reg, res, relative=False):
    """bound |term| <= TOL on the series box of the tangent a (all blocks in the series regime use their T).
    relative=True (log(exp(a)) = a): the property is RELATIVE to |a|, and on a series box |a| is arbitrarily small, so the bound decided is
    |term| <= (TOL/2) * theta  (theta = rotation norm <= sqrt(3) |a|_inf, hence stronger than the property; a failure only nominates the
    native replay, which applies the property's own criterion)."""
    num, den = series_residual(term, g, a, reg)
    tol = Fraction(TOL)
    how = ""
    if relative:
        q, ok = divide_by_angle(num, g, a, reg)
        if ok:
            num, tol, how = q, Fraction(TOL) / 2, "relative to the rotation norm: "
            res.bounds.add("log(exp(a)) = a on series paths decided as |residual| <= 5e-10 * rotation norm (relative)")
        else:
            res.notes.append("log-exp series residual not divisible by the rotation norm: absolute tolerance used")
    worst = None
    for L in LBOX:
        box = series_box(num, den, g, reg, L)
        if box is None:
            return solver.Verdict("undecided", "series round trip with an atom that cannot be enclosed")
        v = solver.check_bound(num, box, tol, den_poly=None if T.p_is_const(den) else den, max_split=12)
        v.how = how + v.how
        if v.status != "holds":
            v.status = "undecided"
            return v
        worst = v
    return worst


def roundtrip_witness(h, t, g, kind, k, sampler, ntry=60):
    """native replay of a round trip against itself: a -> exp -> log (or g -> log -> exp)"""
    mp = check.mpmath()
    for j in range(ntry):
        if kind == "log-exp":
            a = sampler(j)
            ok = True
            for blk, ro, do, mo in O.group_blocks(g):
                if blk.rot and math.sqrt(sum(a[do + i] ** 2 for i in blk.rot)) >= math.pi - 1e-5:
                    ok = False
            if not ok:
                continue
            gg = h.native(t + "_exp", a, g.rep)
            b = h.native(t + "_log", gg, g.dof)
            sc = max(abs(x) for x in a)   # the property is RELATIVE to |a| (an absolute 1e-9 would be vacuous for small a)
            if sc == 0.0:
                continue
            e = abs(b[k] - a[k]) / sc
            if not (e <= TOL):
                return {"property": PID, "key": "%s/log-exp/a%d" % (t, k), "tu_name": h.name, "tu_text": h.text, "fn": t + "_exp", "inputs": a,
                        "nout": g.rep, "native": gg, "what": "a=%r gives log(exp(a))[%d]=%r (relative err %.3g)" % (a, k, b[k], e), "err": e, "tol": TOL}
        else:
            gg = g.random_element(random.Random(j), 10.0)
            a = h.native(t + "_log", gg, g.dof)
            g2 = h.native(t + "_exp", a, g.rep)
            sc = max([1.0] + [abs(x) for x in gg])
            e = abs(g2[k] - gg[k]) / sc
            if not (e <= TOL * 10):
                return {"property": PID, "key": "%s/exp-log/g%d" % (t, k), "tu_name": h.name, "tu_text": h.text, "fn": t + "_log", "inputs": gg,
                        "nout": g.dof, "native": a, "what": "g=%r gives exp(log(g))[%d]=%r (err %.3g)" % (gg, k, g2[k], e), "err": e, "tol": TOL * 10}
    return None


def element_terms(g):
    """symbolic canonical group element: unit quaternions as (x,y,z,sqrt(1-x^2-y^2-z^2)) (q_w >= 0 built in), unit complex
    numbers as (sin phi, cos phi) with phi in (-pi, pi] principal, everything else plain symbols.
    returns (terms, free symbol names, assumptions)"""
    gs = [None] * g.rep
    asm = []
    for blk, ro, do, mo in O.group_blocks(g):
        unit = set()
        for sl in blk.unit_slices():
            idx = [ro + i for i in sl]
            unit.update(idx)
            if len(idx) == 4:
                v = [T.Sym("g%d" % i) for i in idx[:3]]
                for i, x in zip(idx[:3], v):
                    gs[i] = x
                gs[idx[3]] = T.Fn("sqrt", T.Sub(T.Const(1), G.dot(v, v)))
                asm.append((Cond("cmp", G.dot(v, v), T.Const(1), "ole"), True))
            else:
                phi = T.Sym("phi%d" % idx[0])
                T.CTX.principal.add(T.rf_key(T.nf(phi)))
                gs[idx[0]] = T.Fn("sin", phi)
                gs[idx[1]] = T.Fn("cos", phi)
                asm.append((Cond("cmp", phi, T.Sym("pi!"), "ole"), True))
                asm.append((Cond("cmp", phi, T.Neg(T.Sym("pi!")), "ogt"), True))
        for i in range(ro, ro + blk.rep):
            if gs[i] is None:
                gs[i] = T.Sym("g%d" % i)
        if blk.name == "C1":
            asm.append((Cond("cmp", T.Add(T.Mul(gs[ro], gs[ro]), T.Mul(gs[ro + 1], gs[ro + 1])), T.Const(0), "ogt"), True))
    return gs, asm


def job_explog(g, tier):
    """exp(log(g)) = g and |log g|_rot <= pi for canonical elements: the real exp is run on the symbolic output of the real log"""
    T.reset_terms()
    res = check.Result()
    h = grouptu.harness(g)
    t = grouptu.tag(g)
    key = "%s/exp-log" % t
    gs, asm = element_terms(g)
    pi_t = T.Sym("pi!")
    asm_pi = [(Cond("cmp", pi_t, T.Const(solver.PI_LO), "ogt"), True), (Cond("cmp", pi_t, T.Const(solver.PI_HI), "olt"), True)]
    asm = asm + asm_pi
    from symx import engine
    ex = engine.Explorer(h.mod, assumptions=asm)
    p1s = ex.explore(t + "_log", gs, g.dof)
    res.note_paths(p1s, ex)
    res.functions.update([t + "_exp", t + "_log"])
    n_ok = 0
    for i1, p1 in enumerate(p1s):
        if p1.status != "ok":
            res.notes.append("%s log path %d: %s %s" % (key, i1, p1.status, p1.reason))
            continue
        # principal branch: rotation part of the result has norm <= pi
        for bi, (blk, ro, do, mo) in enumerate(O.group_blocks(g)):
            if not blk.rot:
                continue
            w = [p1.outs[do + i] for i in blk.rot]
            n2 = G.dot(w, w)
            v = pi_query(asm + p1.pc, Cond("cmp", n2, T.Mul(pi_t, pi_t), "ogt"))
            res.add_raw("%s/path%d/principal-block%d" % (key, i1, bi), v[0], v[1], v[2])
        ex2 = engine.Explorer(h.mod, assumptions=asm + p1.pc)
        p2s = ex2.explore(t + "_exp", p1.outs, g.rep)
        res.note_paths(p2s, ex2)
        for i2, p2 in enumerate(p2s):
            pk = "%s/path%d.%d" % (key, i1, i2)
            if p2.status != "ok":
                res.add_raw(pk, "undecided", "exp path %s: %s" % (p2.status, p2.reason))
                continue
            n_ok += 1
            small = small_elements(g, gs, p1.pc + p2.pc, asm)
            for k in range(g.rep):
                try:
                    with T.time_budget(20 if tier == "quick" else 240):
                        if small:
                            v = series_element_bound(T.Sub(p2.outs[k], gs[k]), g, small)
                        else:
                            v = solver.check_identity(T.nf(T.Sub(p2.outs[k], gs[k])), pc=p1.pc + p2.pc, assumptions=asm)
                except (T.PolyTooBig, MemoryError):
                    v = solver.Verdict("undecided", "normal form too large")
                if v.status == "violated":
                    w = roundtrip_witness(h, t, g, "exp-log", k, None)
                    if w:
                        res.add("%s/g%d" % (pk, k), v)
                        res.violations.append({"key": "%s/g%d" % (key, k), "what": "exp(log(g)) != g: " + w["what"], "replay": w})
                        continue
                    v.status = "undecided"
                    v.how += " ; not reproduced natively"
                res.add("%s/g%d" % (pk, k), v)
    if not n_ok:
        res.errors.append(key + ": vacuous")
    res.axioms.update(set(T.CTX.log))
    res.axioms.add("canonical elements: unit quaternion (x,y,z,sqrt(1-|v|^2)), unit complex (sin phi, cos phi), phi in (-pi,pi]")
    return res


def pi_query(conds, goal_neg):
    """unsat of conds & goal_neg with the symbol pi! tied to the solver's pi enclosure"""
    z = solver.Z()
    fs = []
    atoms = set()
    for c, pol in list(conds) + [(goal_neg, True)]:
        f, side = z.cond(c, pol)
        fs.append(f)
        fs += side
        solver.cond_atoms(c, atoms)
    fs += solver.atom_axioms(z, atoms)
    for i in atoms:
        if T.ATOM_LIST[i] == ("sym", "pi!"):
            fs.append(z.atom(i) == z.pi)
    rs, m, dt = solver.check(fs, 10000)
    return ("holds" if rs == "unsat" else "undecided", "z3 with atan2/pi range axioms (%s)" % rs, dt)


def small_elements(g, gs, pc, asm):
    """per block: bound T on the squared vector part (quaternion) / squared angle (complex) implied by the path condition"""
    out = {}
    for bi, (blk, ro, do, mo) in enumerate(O.group_blocks(g)):
        for sl in blk.unit_slices():
            idx = [ro + i for i in sl]
            if len(idx) == 4:
                v = [gs[i] for i in idx[:3]]
                q = G.dot(v, v)
            else:
                phi = T.Sym("phi%d" % idx[0])
                q = T.Mul(phi, phi)
            T_ = solver.sup_threshold(pc, q, THRESH[:5], asm)
            if T_ is not None:
                out[bi] = (T_, idx)
    return out


def series_element_bound(term, g, small):
    num, den = T.nf(term)
    names = {}
    for bi, (T_, idx) in small.items():
        amax = Fraction(math.isqrt(int(T_ * 10**16)) + 1, 10**8)
        if len(idx) == 4:
            for i in idx[:3]:
                names["g%d" % i] = amax
        else:
            names["phi%d" % idx[0]] = amax
    worst = None
    for L in LBOX:
        def sym_box(nm):
            if nm.startswith("x") and "!" in nm:
                return (Fraction(-1), Fraction(1))
            if nm in names:
                return (-names[nm], names[nm])
            if nm.startswith("phi"):
                return (Fraction(-4), Fraction(4))
            if nm == "pi!":
                return (solver.PI_LO, solver.PI_HI)
            return (Fraction(-L), Fraction(L))
        n2, _ = solver.enclose_trig(num)
        d2, _ = solver.enclose_trig(den)
        rules = solver.sqrt_rules()
        n2 = solver.reduce_poly(n2, {}, rules)
        d2 = solver.reduce_poly(d2, {}, rules)
        n2 = solver.enclose_sqrt_near1(n2, sym_box)
        d2 = solver.enclose_sqrt_near1(d2, sym_box)
        n2, d2 = T.cancel_content(n2, d2)
        box = solver.box_for([n2, d2], sym_box)
        if box is None:
            return solver.Verdict("undecided", "series round trip with an atom that cannot be enclosed")
        v = solver.check_bound(n2, box, Fraction(TOL), den_poly=None if T.p_is_const(d2) else d2, max_split=12)
        if v.status != "holds":
            v.status = "undecided"
            return v
        worst = v
    return worst


def _compile(g):
    grouptu.harness(g)
    return check.Result()


def main(tier):
    run = check.Run(PID, tier)
    check.JOB_BUDGET[0] = 300 if tier == 'quick' else 1500
    groups = list(G.BASIC.values()) + grouptu.bundle_shapes(tier)
    check.run_jobs([(_compile, (g,)) for g in groups])
    rt = groups if tier == "thorough" else [G.BASIC[n] for n in ("SO2", "SO3", "SE2", "C1", "SE3")]
    jobs = [(job_exp, (g, tier)) for g in groups] + [(job_logexp, (g, tier)) for g in rt] + [(job_explog, (g, tier)) for g in rt]
    if tier == "quick":
        # SE_K_3 with K = 3: the only instantiation in which a per-block stride differs from 3 and from K+1 (seed C02d); log(exp(a)) only
        jobs.append((job_logexp, (G.BASIC["SE_3_3"], tier)))
    run.bounds.append("log/exp round trips: " + ", ".join(g.name for g in rt) + ("; SE_K_3<3>: log(exp(a)) = a only" if tier == "quick" else ""))
    run.extend(check.run_jobs(jobs, timeout=900 if tier == 'quick' else 1800))
    run.bounds += ["groups: " + ", ".join(g.name for g in groups), "closed-form paths: all tangent vectors (layer R identity)"]
    run.assumptions += ["layer R (exact real arithmetic); floating-point cancellation next to the switch is a layer-E question"]
    return run.finish()
