"""C02: exp is the matrix exponential; log its principal inverse (DESIGN 4/C02)."""
import random, math
from fractions import Fraction
from symx import terms as T, groups as G, check, solver, oracles as O
from symx.interp import Cond
from . import grouptu

PID = "C02"
TOL = 1e-9
THRESH = [Fraction(1, 10**8), Fraction(1, 10**7), Fraction(1, 10**6), Fraction(1, 10**5), Fraction(1, 10**4), Fraction(1, 10**3), Fraction(1, 100)]
LBOX = [1, 1000]  # translation magnitude boxes for the series-path bound queries (tol scales with the box)


def tangent_sampler(g, scale_rot=None):
    """stratified over the rotation norm: generic, around the small-angle switch, near pi"""
    def s(k):
        r = random.Random(k)
        a = [r.uniform(-3, 3) for _ in range(g.dof)]
        strata = [None, 1e-12, 1e-6, 0.99e-4, 1.01e-4, 3e-4, 1e-3, 1e-2, 0.5, 3.0, math.pi - 1e-9, math.pi + 1e-9, 7.0, 45.0]
        tgt = strata[k % len(strata)]
        for blk, ro, do, mo in O.group_blocks(g):
            idx = [do + i for i in blk.rot]
            if not idx:
                continue
            if tgt is not None:
                n = math.sqrt(sum(a[i] ** 2 for i in idx)) or 1.0
                for i in idx:
                    a[i] = a[i] / n * tgt
        return a
    return s


def regimes(g, a, p):
    """per leaf block: ('series', T) if the path condition bounds theta^2 by T, else ('closed', None)"""
    out = {}
    for bi, (blk, ro, do, mo) in enumerate(O.group_blocks(g)):
        if not blk.rot:
            out[bi] = ("closed", None)
            continue
        ang = O.Angle([a[do + i] for i in blk.rot])
        T_ = solver.sup_threshold(p.pc, ang.t, THRESH)
        out[bi] = ("series", T_) if T_ is not None else ("closed", None)
    return out


def job_exp(g, tier):
    T.reset_terms()
    res = check.Result()
    h = grouptu.harness(g)
    t = grouptu.tag(g)
    key = "%s/exp" % t
    a = G.syms("a", g.dof)
    n = g.dim
    blocks = O.group_blocks(g)
    xis = {bi: {m: T.Sym("xi%d_%d" % (bi, m)) for m in range(1, 6)} for bi in range(len(blocks))}

    def block_of(i):
        for bi, (blk, ro, do, mo) in enumerate(blocks):
            if mo <= i < mo + blk.dim:
                return bi
        return None

    def obl(ins, outs):
        L = g.docM(outs)
        R = O.exp_oracle(g, ins, "closed")
        return [("M%d_%d" % (i, j), L[i][j], R[i][j]) for i in range(n) for j in range(n)]

    def per_path(p, obls):
        reg = regimes(g, a, p)
        if all(r[0] == "closed" for r in reg.values()):
            return {}
        Rs = O.exp_oracle(g, a, {bi: ("series" if r[0] == "series" else "closed") for bi, r in reg.items()}, xis, nterms=3)
        hd = {}
        for i in range(n):
            for j in range(n):
                bi = block_of(i)
                if bi is None or block_of(j) != bi or reg[bi][0] != "series":
                    continue
                hd["M%d_%d" % (i, j)] = series_handler(g, a, blocks, bi, reg[bi][1], Rs[i][j], xis[bi], res)
        return hd

    check.check_wrapper(res, h, t + "_exp", a, g.rep, None, key, obligations=obl, per_path=per_path, tol=TOL, pid=PID,
                        sampler=tangent_sampler(g), timeout_ms=10000 if tier == "quick" else 60000, nvalidate=14)
    # spectrum obligation of the Hermite oracle: X^3 (X^2 + theta^2) = 0 for X = hat(a) of every leaf group
    for bi, (blk, ro, do, mo) in enumerate(blocks):
        if not blk.rot or blk.name == "C1":
            continue
        ab = a[do:do + blk.dof]
        X = blk.hat(ab)
        ang = O.Angle([ab[i] for i in blk.rot])
        Rm = O.minpoly_residual(X, ang.t, 3)
        worst = None
        for row in Rm:
            for e in row:
                v = solver.check_identity(T.nf(e))
                if v.status != "holds":
                    worst = v
        res.add("%s/hermite-spectrum/block%d" % (key, bi), worst or solver.Verdict("holds", "z3 (all %d entries)" % (len(Rm) ** 2)))
    res.axioms.add("exp oracle: expm(X) = I + X + X^2/2 + g3(th) X^3 + g4(th) X^4, valid because X^3(X^2+th^2)=0 is discharged per group")
    res.axioms.add("series paths: g_m(th) = sum_{k<3} (-1)^k th^2k/(2k+m)! + xi th^6/(6+m)!, |xi|<=1 (alternating series, th^2<=1)")
    return res


def series_handler(g, a, blocks, bi, Tmax, oracle_entry, xi, res):
    blk, ro, do, mo = blocks[bi]
    rot_names = {"a%d" % (do + i) for i in blk.rot}
    amax = Fraction(math.isqrt(int(Tmax * 10**16)) + 1, 10**8)

    def hd(name, lhs, rhs_ignored, p):
        rf = T.nf(T.Sub(lhs, oracle_entry))
        num, den = rf
        num, _ = solver.enclose_trig(num)
        den, _ = solver.enclose_trig(den)
        num, den = T.rf_norm(num, den)
        rules = solver.sqrt_rules()
        num = solver.reduce_poly(num, {}, rules)
        den = solver.reduce_poly(den, {}, rules)
        worst = None
        for L in LBOX:
            def sym_box(nm):
                if nm.startswith("xi") or nm.startswith("xe!"):
                    return (Fraction(-1), Fraction(1))
                if nm in rot_names:
                    return (-amax, amax)
                return (Fraction(-L), Fraction(L))
            box = solver.box_for([num, den], sym_box)
            if box is None:
                return solver.Verdict("undecided", "series path with an atom that cannot be enclosed")
            v = solver.check_bound(num, box, Fraction(TOL) * L, den_poly=None if T.p_is_const(den) else den, max_split=12)
            res.bounds.add("series-path boxes: |rot a_i| <= sqrt(T) (T from the path condition, here %s), translations <= %s with tol %g*%s" % (Tmax, LBOX, TOL, LBOX))
            if v.status != "holds":
                return v
            worst = v
        return worst
    return hd


def _compile(g):
    grouptu.harness(g)
    return check.Result()


def main(tier):
    run = check.Run(PID, tier)
    groups = list(G.BASIC.values()) + grouptu.bundle_shapes(tier)
    check.run_jobs([(_compile, (g,)) for g in groups])
    jobs = [(job_exp, (g, tier)) for g in groups]
    run.extend(check.run_jobs(jobs))
    run.bounds += ["groups: " + ", ".join(g.name for g in groups), "closed-form paths: all tangent vectors (layer R identity)"]
    run.assumptions += ["layer R (exact real arithmetic); floating-point cancellation next to the switch is a layer-E question"]
    return run.finish()
