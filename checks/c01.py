"""C01: group operations realise the documented matrix group (DESIGN 4/C01)."""
import random, sys
from symx import terms as T, groups as G, check, engine, solver
from . import grouptu

PID = "C01"
TOL = 1e-12


def job(gname_or_shape, fn, scalar, tier):
    T.reset_terms()
    g = gname_or_shape
    res = check.Result()
    h = grouptu.harness(g, scalar)
    t = grouptu.tag(g, scalar)
    fbits = 64 if scalar == "double" else 32
    tol = TOL if fbits == 64 else 1e-5
    rnd = random.Random(7)
    key = "%s/%s" % (t, fn)
    g1 = G.syms("g", g.rep)
    g2 = G.syms("h", g.rep)
    kw = dict(pid=PID, tol=tol, fbits=fbits, timeout_ms=10000 if tier == "quick" else 60000)

    def audit(paths):
        for p in paths:
            if fbits == 64 and any(e[0] == "fptrunc" for e in p.events):
                res.add_raw(key + "/no-narrowing", "violated", "fptrunc on a path of the double instantiation")
                res.violations.append({"key": key + "/narrowing", "what": "%s: precision-dropping conversion inside double code" % key})
        res.add_raw(key + "/no-narrowing", "holds", "IR event scan over %d paths" % len(paths))

    if fn == "matrix":
        check.check_wrapper(res, h, t + "_matrix", g1, g.dim * g.dim, lambda ins: G.flat(g.docM(ins)), key,
                            sampler=lambda k: g.random_element(random.Random(k), 10.0), rules=g.rules(g1), on_paths=audit, **kw)
    elif fn == "compose":
        def obl(ins, outs):
            L = g.docM(outs)
            R = G.mm(g.docM(ins[:g.rep]), g.docM(ins[g.rep:]))
            return [("M%d%d" % (i, j), L[i][j], R[i][j]) for i in range(g.dim) for j in range(g.dim)]

        def mpo(inp):
            return None
        check.check_wrapper(res, h, t + "_compose", g1 + g2, g.rep, None, key, obligations=obl,
                            sampler=lambda k: g.random_element(random.Random(k), 10.0) + g.random_element(random.Random(k + 5000), 10.0),
                            rules=g.rules(g1) + g.rules(g2), on_paths=audit, **kw)
    elif fn == "inverse":
        def obl(ins, outs):
            L = G.mm(g.docM(outs), g.docM(ins))
            I = G.eye(g.dim)
            return [("M%d%d" % (i, j), L[i][j], I[i][j]) for i in range(g.dim) for j in range(g.dim)]
        asm = []
        check.check_wrapper(res, h, t + "_inverse", g1, g.rep, None, key, obligations=obl,
                            sampler=lambda k: g.random_element(random.Random(k), 10.0), rules=g.rules(g1), on_paths=audit, **kw)
    elif fn == "identity":
        def obl(ins, outs):
            L = g.docM(outs)
            I = G.eye(g.dim)
            return [("M%d%d" % (i, j), L[i][j], I[i][j]) for i in range(g.dim) for j in range(g.dim)]
        check.check_wrapper(res, h, t + "_identity", [], g.rep, None, key, obligations=obl, sampler=lambda k: [], nvalidate=1, **kw)
    elif fn == "action":
        v = G.syms("v", g.act)
        check.check_wrapper(res, h, t + "_action", g1 + v, g.act, lambda ins: g.act_apply(ins[:g.rep], ins[g.rep:]), key,
                            sampler=lambda k: g.random_element(random.Random(k), 10.0) + [random.Random(k + 1).uniform(-5, 5) for _ in range(g.act)],
                            rules=g.rules(g1), on_paths=audit, **kw)
    return res


def main(tier):
    run = check.Run(PID, tier)
    groups = list(G.BASIC.values()) + [G.Tn(2)] + grouptu.bundle_shapes(tier)
    jobs = []
    for g in groups:
        if isinstance(g, G.Tn):
            continue
        for fn in ["matrix", "compose", "inverse", "identity"] + (["action"] if g.act else []):
            jobs.append((job, (g, fn, "double", tier)))
    if tier == "thorough":
        for g in [G.BASIC["SO3"], G.BASIC["SE3"], G.BASIC["SE2"], G.BASIC["Galilei"]]:
            for fn in ["matrix", "compose", "inverse", "identity"] + (["action"] if g.act else []):
                jobs.append((job, (g, fn, "float", tier)))
    # compile harnesses first (parallel over groups)
    pre = {}
    for j in jobs:
        pre[(j[1][0].name, j[1][2])] = (j[1][0], j[1][2])
    check.run_jobs([(_compile, (g, s)) for g, s in pre.values()])
    run.extend(check.run_jobs(jobs))
    run.bounds += ["groups: " + ", ".join(g.name for g in groups), "inputs: all reals satisfying the unit-norm constraints (layer R, no magnitude bound)",
                   "float instantiations: thorough tier only (same algebra in layer R)"]
    run.assumptions += ["layer R: every IR floating-point operation is the exact real operation; literals snapped to the simplest rational within half an ulp",
                        "accumulated rounding of branch-free polynomial kernels is outside the claim",
                        "Galilei hat(): the class comment's last row [0 0 0 0 1] is read as [0 0 0 0 0] (tangent space of the documented group matrix)"]
    return run.finish()


def _compile(g, s):
    grouptu.harness(g, s)
    return check.Result()
