"""C14 (partial): fit_spline_1d's coefficients satisfy every linear constraint of the specification (DESIGN 13.6).

The real fit_spline_1d -- sparse assembly, Eigen::SparseLU (interpolating specs) or SimplicialLDLT on the KKT system
(MinDerivative) -- is executed symbolically with symbolic sampling intervals dt_i > 0 and increments dx_i; every pivot
decision is a path.  z3 decides on each path that the returned Bernstein coefficients satisfy the interpolation,
derivative-continuity and boundary equations written from the specification."""
import random
from fractions import Fraction
from math import comb, factorial
from symx import terms as T, groups as G, check, solver, engine
from symx.interp import Cond

PID = "C14"
SPECS = {0: ("PiecewiseLinear", 1, 0, [], []), 1: ("FixedDerCubic<1>", 3, 2, [1], [1]), 2: ("FixedDerCubic<2>", 3, 2, [2], [2]),
         3: ("MinDerivative<5,3,3>", 5, 3, [1, 2], [1, 2]), 4: ("MinDerivative<6,3,3>", 6, 3, [1, 2], [1, 2])}
MINDER = (3, 4)


def cfgs(tier):
    c = [(0, 1), (0, 2), (0, 3), (1, 1), (1, 2), (2, 1), (2, 2), (3, 1), (4, 1)]
    if tier == "thorough":
        c += [(1, 3), (2, 3), (3, 2), (4, 2)]
    return c


SCAN_N = (1, 2, 3, 6)


def tu_cfgs(tier):
    c = cfgs(tier) + ([(3, 2)] if tier == "quick" else [])
    return c + [(s_, n_) for s_ in SPECS for n_ in SCAN_N if (s_, n_) not in c]   # wrappers used only by the native scan


GRP_P = 4


def tu_text(cf):
    grp = "\n".join('extern "C" void fitg_%d_%s(const double* i, double* o){ vfit::fitgrp<%d, smooth::%sd, %d>(i,o);}' % (s_, g_, s_, g_, GRP_P) for s_ in SPECS for g_ in ("SO3", "SE2"))
    return '#include "vfit.hpp"\n' + grp + "\n" + "\n".join('extern "C" void fit_%d_%d(const double* i, double* o){ vfit::fit1d<%d,%d>(i,o);}' % (s, n, s, n) for s, n in cf) + "\n"


def deriv_at(c, K, d, end):
    """d-th derivative of sum_k c_k B_{k,K}(u) at u=0 (end=0) or u=1 (end=1)"""
    f = factorial(K) // factorial(K - d)
    acc = T.Const(0)
    for j in range(d + 1):
        coef = (-1) ** (d - j) * comb(d, j) * f
        idx = j if end == 0 else K - d + j
        acc = T.Add(acc, T.Mul(T.Const(coef), c[idx]))
    return acc


def deriv_row(K, d, end):
    """coefficients (over the K+1 Bernstein coefficients) of the d-th derivative at u=0 / u=1"""
    f = factorial(K) // factorial(K - d)
    row = [Fraction(0)] * (K + 1)
    for j in range(d + 1):
        row[j if end == 0 else K - d + j] += (-1) ** (d - j) * comb(d, j) * f
    return row


def min_derivative_reference(K, D, inn, left, rght, dtv):
    """Exact minimiser of  sum_i dt_i^(1-2D) int_0^1 (p_i^(D)(u))^2 du  subject to the specification's linear constraints, as a rational
    matrix X with  coefficients = X dx  (written from the documentation of spline_specs::MinDerivative and fit_spline_1d, not from the
    implementation: no regulariser, no sparse assembly)."""
    import sympy as sp
    u = sp.symbols("u")
    N = len(dtv)
    B = [sp.binomial(K, k) * u ** k * (1 - u) ** (K - k) for k in range(K + 1)]
    dB = [sp.diff(b, u, D) for b in B]
    P = sp.Matrix(K + 1, K + 1, lambda i, j: sp.integrate(sp.expand(dB[i] * dB[j]), (u, 0, 1)))
    n = N * (K + 1)
    rows, rhs = [], []

    def row(entries):
        r = [sp.Integer(0)] * n
        for i, k, v in entries:
            r[i * (K + 1) + k] += sp.Rational(v.numerator, v.denominator) if isinstance(v, Fraction) else sp.Rational(v)
        return r
    for i in range(N):
        rows.append(row([(i, 0, 1)])); rhs.append([0] * N)
        e = [0] * N; e[i] = 1
        rows.append(row([(i, K, 1)])); rhs.append(e)
    for i in range(N - 1):
        for d in range(1, inn + 1):
            a = deriv_row(K, d, 1)
            b = deriv_row(K, d, 0)
            rows.append(row([(i, k, a[k] * dtv[i + 1] ** d) for k in range(K + 1)] + [(i + 1, k, -b[k] * dtv[i] ** d) for k in range(K + 1)])); rhs.append([0] * N)
    for d in left:
        a = deriv_row(K, d, 0)
        rows.append(row([(0, k, a[k]) for k in range(K + 1)])); rhs.append([0] * N)
    for d in rght:
        a = deriv_row(K, d, 1)
        rows.append(row([(N - 1, k, a[k]) for k in range(K + 1)])); rhs.append([0] * N)
    A = sp.Matrix(rows)
    b = sp.Matrix(rhs)
    Q = sp.zeros(n, n)
    for i in range(N):
        fac = sp.Rational(dtv[i].numerator, dtv[i].denominator) ** (1 - 2 * D)
        Q[i * (K + 1):(i + 1) * (K + 1), i * (K + 1):(i + 1) * (K + 1)] = fac * P
    m = A.shape[0]
    KKT = sp.Matrix(sp.BlockMatrix([[Q, A.T], [A, sp.zeros(m, m)]]))
    sol = KKT.LUsolve(sp.Matrix(sp.BlockMatrix([[sp.zeros(n, N)], [b]])))
    return [[Fraction(int(sol[k, j].p), int(sol[k, j].q)) for j in range(N)] for k in range(n)]


def tpow(x, k):
    r = T.Const(1)
    for _ in range(k):
        r = T.Mul(r, x)
    return r


DT_FIXED = {1: [(Fraction(1),), (Fraction(1, 2),), (Fraction(3),)], 2: [(Fraction(1), Fraction(1)), (Fraction(1, 2), Fraction(2)), (Fraction(3), Fraction(1, 3))]}


def job(cf, cfall, tier, dtfix=None):
    spec, N = cf
    name, K, inn, left, rght = SPECS[spec]
    T.reset_terms()
    res = check.Result()
    h = check.Harness("fit_" + tier, tu_text(cfall))
    dt, dx = G.syms("dt", N), G.syms("dx", N)
    in_names = [x.args[0] for x in dt + dx]
    if dtfix is not None:
        # MinDerivative: the KKT factorisation with symbolic dt swells beyond any budget (rational pivots of high degree);
        # dt is fixed to stated rational values, dx stays symbolic
        dt = [T.Const(v) for v in dtfix]
    ins = dt + dx
    asm = [] if dtfix is not None else [(Cond("cmp", x, T.Const(Fraction(1, 100)), "oge"), True) for x in dt] + [(Cond("cmp", x, T.Const(100), "ole"), True) for x in dt]
    fn = "fit_%d_%d" % (spec, N)
    key = "fit_spline_1d/%s/N%d" % (name, N) + ("/dt=%s" % ",".join(str(v) for v in dtfix) if dtfix is not None else "")
    nout = N * (K + 1)

    def sampler(k):
        r = random.Random(k)
        if dtfix is not None:
            return [float(v) for v in dtfix] + [r.uniform(-2, 2) for _ in range(N)]
        return [r.choice([0.05, 0.1, 0.5, 1.0, 3.0]) * r.uniform(0.8, 1.2) for _ in range(N)] + [r.uniform(-2, 2) for _ in range(N)]

    def obligations(ins_, o):
        c = [o[i * (K + 1):(i + 1) * (K + 1)] for i in range(N)]
        obl = []
        for i in range(N):
            obl.append(("seg%d/starts-at-0" % i, c[i][0], T.Const(0)))
            obl.append(("seg%d/ends-at-dx" % i, c[i][K], dx[i]))
        for i in range(N - 1):
            for d in range(1, inn + 1):
                # p_i^(d)(1) / dt_i^d = p_{i+1}^(d)(0) / dt_{i+1}^d   (cross-multiplied)
                obl.append(("knot%d/derivative%d-continuous" % (i + 1, d), T.Mul(deriv_at(c[i], K, d, 1), tpow(dt[i + 1], d)), T.Mul(deriv_at(c[i + 1], K, d, 0), tpow(dt[i], d))))
        for d in left:
            obl.append(("left-boundary/derivative%d=0" % d, deriv_at(c[0], K, d, 0), T.Const(0)))
        for d in rght:
            obl.append(("right-boundary/derivative%d=0" % d, deriv_at(c[N - 1], K, d, 1), T.Const(0)))
        return obl
    paths = check.check_wrapper(res, h, fn, ins, nout, None, key, obligations=obligations, assumptions=asm, tol=1e-6, pid=PID, sampler=sampler, max_paths=600,
                                nvalidate=8, timeout_ms=20000, in_names=in_names)
    if spec in MINDER and dtfix is not None and (N >= 2 or K > 5):
        optimality(res, h, fn, key, paths, K, inn, left, rght, dtfix, dx, sampler)
    # memory errors on paths of a failed factorisation (singular pivot) are infeasible-but-unrefuted paths, not findings
    keep = []
    for v in res.violations:
        if v["key"].endswith("/memory"):
            res.notes.append(key + ": path with failed factorisation could not be refuted (reads the unset solution): " + v["what"][:120])
        else:
            keep.append(v)
    res.violations = keep
    res.obls = [(n_, ("undecided" if (s_ == "violated" and n_.endswith("/memory-safe")) else s_), h_, d_) for (n_, s_, h_, d_) in res.obls]
    return res


def constraint_rows(spec, N, dts):
    """every linear constraint of the specification as (name, {coefficient index: weight}, rhs index or None): sum_k w_k c_k = dx[rhs]"""
    name, K, inn, left, rght = SPECS[spec]
    rows = []
    for i in range(N):
        rows.append(("seg%d/starts-at-0" % i, {i * (K + 1): 1.0}, None))
        rows.append(("seg%d/ends-at-dx" % i, {i * (K + 1) + K: 1.0}, i))
    for i in range(N - 1):
        for d in range(1, inn + 1):
            a, b = deriv_row(K, d, 1), deriv_row(K, d, 0)
            w = {}
            for k in range(K + 1):
                if a[k]:
                    w[i * (K + 1) + k] = float(a[k]) / dts[i] ** d
                if b[k]:
                    w[(i + 1) * (K + 1) + k] = w.get((i + 1) * (K + 1) + k, 0.0) - float(b[k]) / dts[i + 1] ** d
            rows.append(("knot%d/derivative%d-continuous" % (i + 1, d), w, None))
    for d in left:
        a = deriv_row(K, d, 0)
        rows.append(("left-boundary/derivative%d=0" % d, {k: float(a[k]) for k in range(K + 1) if a[k]}, None))
    for d in rght:
        a = deriv_row(K, d, 1)
        rows.append(("right-boundary/derivative%d=0" % d, {(N - 1) * (K + 1) + k: float(a[k]) for k in range(K + 1) if a[k]}, None))
    return rows


SCAN_TOL = 1e-6


def job_scan(cfall, tier):
    """SUPPLEMENTARY (never turns anything into 'holds'): layer R is exact arithmetic and cannot see the conditioning of the sparse factorisations,
    so the natively built fit_spline_1d is replayed on sampling patterns taken from the property's quantifier (intervals 1e-2..1e2, neighbouring
    ratio up to 1e3 for the interpolating and 10 for the derivative-minimising specifications) and every constraint of the specification is
    evaluated on its output in backward-error form  |a.c - b| <= 1e-6 (|a|_1 |c|_inf + |b|).  A miss is a violation with a replay file."""
    res = check.Result()
    h = check.Harness("fit_" + tier, tu_text(cfall))
    npts = 0
    for spec, (name, K, inn, left, rght) in SPECS.items():
        ratio = 10.0 if spec in MINDER else 1000.0
        worst = (0.0, None)
        for N in SCAN_N:
            for base in (0.01, 0.1, 1.0, 10.0, 100.0):
                for pat in range(3 if N > 1 else 1):
                    r = random.Random(1000 * N + pat)
                    dts = []
                    for i in range(N):
                        f = 1.0 if pat == 0 else (ratio if (i % 2) == (pat % 2) else 1.0)
                        dts.append(min(100.0, max(0.01, base * f)))
                    dxs = [r.uniform(-2, 2) for _ in range(N)]
                    fn = "fit_%d_%d" % (spec, N)
                    out = h.native(fn, dts + dxs, N * (K + 1))
                    npts += 1
                    cm = max(abs(x) for x in out)
                    for rname, w, ri in constraint_rows(spec, N, dts):
                        lhs = sum(wk * out[k] for k, wk in w.items())
                        rhs = dxs[ri] if ri is not None else 0.0
                        den = sum(abs(wk) for wk in w.values()) * cm + abs(rhs)
                        e = abs(lhs - rhs) / den if den > 0 else 0.0
                        if not (e <= worst[0]):
                            worst = (e, (fn, dts + dxs, out, rname, N, K))
        key = "fit_spline_1d/%s/native-precision" % name
        if not (worst[0] <= SCAN_TOL):
            e, (fn, inp, out, rname, N, K) = worst
            res.violations.append({"key": key, "what": "%s: native %s violates its constraint '%s' by %.3g relative (tolerance %g) at dt=%r" % (key, fn, rname, e, SCAN_TOL, inp[:N]),
                                   "replay": {"property": PID, "key": key, "tu_name": h.name, "tu_text": h.text, "fn": fn, "inputs": inp, "nout": N * (K + 1), "native": out, "err": e,
                                              "tol": SCAN_TOL, "obligation": rname, "lhs": "native", "rhs": "specification constraint (backward-error form)"}})
            res.add_raw(key + "-scan", "violated", "native replay: constraint '%s' off by %.3g relative" % (rname, e))
        res.notes.append("%s: supplementary native scan, worst relative constraint residual %.2e" % (key, worst[0]))
    res.notes.append("native constraint scan: %d fits (N in %s, dt patterns uniform / alternating x ratio, base 1e-2..1e2)" % (npts, list(SCAN_N)))
    res.paths, res.steps = 1, 1
    return res


def job_scan_group(cfall, tier):
    """SUPPLEMENTARY, native only (fit_spline on Lie groups is not encoded symbolically, DESIGN 13.6): the natively built fit_spline is run on
    SO3 and SE2 data (4 points, non-uniform stamps, consecutive differences inside the injectivity radius) for every specification and the
    curve is evaluated at and on both sides of every data point: interpolation from both sides, continuous body velocity for degree >= 3,
    rest at both ends where the specification asks for it.  It can only add violations."""
    res = check.Result()
    h = check.Harness("fit_" + tier, tu_text(cfall))
    P = GRP_P
    npts = 0
    for gname in ("SO3", "SE2"):
        g = G.BASIC[gname]
        R, D = g.rep, g.dof
        for spec, (name, K, inn, left, rght) in SPECS.items():
            worst = (0.0, None)
            for pat, ts in enumerate(([0.0, 1.0, 2.0, 3.0], [0.0, 0.4, 2.4, 2.9], [0.0, 3.0, 3.5, 8.5], [0.0, 0.1, 0.2, 0.3])):
                r = random.Random(17 * pat + spec)
                gs = [g.random_element(r, 1.0)]
                import ctypes
                inp0 = list(ts)
                # consecutive data by composing with small group elements through the library itself (rplus wrapper of the group TU is not
                # in this TU): use random elements close to each other instead
                for i in range(1, P):
                    gs.append(g.random_element(r, 1.0))
                inp = inp0 + [x for e in gs for x in e]
                out = h.native("fitg_%d_%s" % (spec, gname), inp, P * 3 * (R + D))
                npts += 1
                blk = R + D

                def val(i, k):
                    o = (i * 3 + (k + 1)) * blk
                    return out[o:o + R], out[o + R:o + blk]
                for i in range(P):
                    # q and -q are the same rotation for SO3: compare up to the sign of the quaternion part
                    for k in (-1, 0, 1):
                        v, vel = val(i, k)
                        e1 = max(abs(a - b) for a, b in zip(v, gs[i]))
                        if gname == "SO3":
                            e1 = min(e1, max(abs(a + b) for a, b in zip(v, gs[i])))
                        sc = max(1.0, max(abs(x) for x in gs[i]))
                        tol = 1e-6 if k == 0 else 1e-4
                        if e1 / sc > tol and e1 / sc / tol > worst[0]:
                            worst = (e1 / sc / tol, ("value at t_%d%s differs from the data point by %.3g" % (i, {-1: " (left limit)", 0: "", 1: " (right limit)"}[k], e1), inp, out))
                    if K >= 3 and 0 < i < P - 1:
                        vl, vr = val(i, -1)[1], val(i, 1)[1]
                        ev = max(abs(a - b) for a, b in zip(vl, vr))
                        sv = 1.0 + max(abs(x) for x in vl)
                        if ev / sv > 1e-3 and ev / sv / 1e-3 > worst[0]:
                            worst = (ev / sv / 1e-3, ("body velocity jumps by %.3g at t_%d" % (ev, i), inp, out))
                if 1 in left:
                    for i, k in ((0, 0), (P - 1, 0)):
                        vel = val(i, k)[1]
                        ev = max(abs(x) for x in vel)
                        if ev > 1e-5 and ev / 1e-5 > worst[0]:
                            worst = (ev / 1e-5, ("specification asks for rest at the boundary, body velocity is %.3g at t_%d" % (ev, i), inp, out))
            key = "fit_spline/%s/%s/native" % (gname, name)
            if worst[1] is not None:
                what, inp, out = worst[1]
                res.violations.append({"key": key, "what": "%s: %s (time stamps %r)" % (key, what, inp[:P]),
                                       "replay": {"property": PID, "key": key, "tu_name": h.name, "tu_text": h.text, "fn": "fitg_%d_%s" % (spec, gname), "inputs": inp, "nout": len(out),
                                                  "native": out, "err": worst[0], "tol": 1.0, "obligation": what, "lhs": "native", "rhs": "data point / continuity"}})
                res.add_raw(key + "-scan", "violated", "native replay: " + what)
    res.notes.append("fit_spline on SO3/SE2: supplementary native scan, %d fits x %d data points (value, one-sided limits, velocity continuity, boundary rest)" % (npts, P))
    res.paths, res.steps = 1, 1
    return res


OPT_TOL = Fraction(1, 10**4)


def optimality(res, h, fn, key, paths, K, inn, left, rght, dtv, dx, sampler):
    """MinDerivative with free degrees of freedom (N >= 2): the returned coefficients are within 1e-4 |dx|_inf of the exact minimiser of the
    documented cost (the implementation's 1e-6 Tikhonov term moves the minimiser by ~1e-6).  Both sides are linear in the symbolic dx; z3 decides
    the bound over the box |dx_i| <= 1 (scale invariance covers the rest)."""
    N = len(dtv)
    X = min_derivative_reference(K, 3, inn, left, rght, list(dtv))
    box = [(Cond("cmp", x, T.Const(-1), "oge"), True) for x in dx] + [(Cond("cmp", x, T.Const(1), "ole"), True) for x in dx]
    for pi, p in enumerate(paths):
        if p.status != "ok":
            continue
        bad = []
        for k in range(N * (K + 1)):
            ref = G.sum_terms([T.Mul(T.Const(X[k][j]), dx[j]) for j in range(N)])
            r = T.Sub(p.outs[k], ref)
            ok = (solver.entails(list(p.pc) + box, Cond("cmp", r, T.Const(OPT_TOL), "ole"), True)
                  and solver.entails(list(p.pc) + box, Cond("cmp", r, T.Const(-OPT_TOL), "oge"), True))
            name = "%s/path%d/minimiser/coef%d" % (key, pi, k)
            if ok:
                res.add_raw(name, "holds", "z3: |coef - exact minimiser| <= 1e-4 on |dx|<=1 (LRA)")
            else:
                bad.append((name, k))
        if bad:
            # candidate: reproduce natively before reporting
            w = None
            for s_ in range(6):
                inp = sampler(100 + s_)
                out = h.native(fn, inp, N * (K + 1))
                dxv = inp[N:]
                sc = max(abs(v) for v in dxv) or 1.0
                for name, k in bad:
                    refv = sum(float(X[k][j]) * dxv[j] for j in range(N))
                    if abs(out[k] - refv) > float(OPT_TOL) * sc:
                        w = (name, k, inp, out, abs(out[k] - refv) / sc)
                        break
                if w:
                    break
            for name, k in bad:
                res.add_raw(name, "violated" if w else "undecided", "z3 could not bound the distance to the exact minimiser" + (" ; reproduced natively" if w else " ; not reproduced natively"))
            if w:
                name, k, inp, out, e = w
                res.violations.append({"key": "%s/minimiser" % key, "what": "%s: coefficient %d is %.3g |dx| away from the exact minimiser of the documented cost (tolerance 1e-4) at input %r" % (fn, k, e, inp),
                                       "replay": {"property": PID, "key": "%s/minimiser" % key, "tu_name": h.name, "tu_text": h.text, "fn": fn, "inputs": inp, "nout": N * (K + 1),
                                                  "native": out, "err": e, "tol": float(OPT_TOL), "obligation": "distance to exact minimiser", "lhs": "native", "rhs": "exact rational minimiser"}})
    res.axioms.add("MinDerivative optimality oracle: exact rational KKT solution of the documented cost and constraints (sympy), independent of the implementation's assembly")


def main(tier):
    run = check.Run(PID, tier)
    check.JOB_BUDGET[0] = 400 if tier == "quick" else 1500
    cf = cfgs(tier)
    cfT = tu_cfgs(tier)
    check.run_jobs([(_compile, (cfT, tier))])
    jobs = []
    for c in cf:
        if c[0] in MINDER:
            jobs += [(job, (c, cfT, tier, dtv)) for dtv in DT_FIXED[c[1]]]
            if tier == "quick" and c[0] == 3:
                jobs.append((job, ((3, 2), cfT, tier, DT_FIXED[2][1])))   # one two-segment MinDerivative with ratio 4 (the only quick case with a free degree of freedom)
        else:
            jobs.append((job, (c, cfT, tier)))
    jobs.append((job_scan, (cfT, tier)))
    jobs.append((job_scan_group, (cfT, tier)))
    run.extend(check.run_jobs(jobs, timeout=1500 if tier == "quick" else 1800))
    run.bounds += ["(spec, segments): %s ; dt_i in [1e-2, 1e2] symbolic (any ratio), dx_i symbolic" % [(SPECS[s][0], n) for s, n in cf if s not in MINDER],
                   "MinDerivative<5,3,3> and <6,3,3>: dt fixed to %s (N=1)%s, dx_i symbolic" % ([tuple(str(x) for x in v) for v in DT_FIXED[1]], (" and %s (N=2)" % [tuple(str(x) for x in v) for v in (DT_FIXED[2] if tier == "thorough" else DT_FIXED[2][1:2])])),
                   "MinDerivative N=2: coefficients within 1e-4 |dx|_inf of the exact rational minimiser of the documented cost"]
    run.assumptions += ["layer R: exact arithmetic -- the floating-point conditioning of the sparse factorisations (where the MinDerivative defect named in the property lives) is outside",
                        "fit_spline on groups, fit_bspline, dubins_curve, reparameterize_spline: not encoded (DESIGN 13.6)"]
    return run.finish()


def _compile(cf, tier):
    check.Harness("fit_" + tier, tu_text(cf))
    return check.Result()
