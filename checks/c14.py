"""C14 (partial): fit_spline_1d's coefficients satisfy every linear constraint of the specification (DESIGN 13.6).

The real fit_spline_1d -- sparse assembly, Eigen::SparseLU (interpolating specs) or SimplicialLDLT on the KKT system
(MinDerivative) -- is executed symbolically with symbolic sampling intervals dt_i > 0 and increments dx_i; every pivot
decision is a path.  z3 decides on each path that the returned Bernstein coefficients satisfy the interpolation,
derivative-continuity and boundary equations written from the specification."""
import random
from fractions import Fraction
from math import comb, factorial
from symx import terms as T, groups as G, check, solver, engine
from symx.interp import Cond

PID = "C14"
SPECS = {0: ("PiecewiseLinear", 1, 0, [], []), 1: ("FixedDerCubic<1>", 3, 2, [1], [1]), 2: ("FixedDerCubic<2>", 3, 2, [2], [2]),
         3: ("MinDerivative<5,3,3>", 5, 3, [1, 2], [1, 2])}


def cfgs(tier):
    c = [(0, 1), (0, 2), (0, 3), (1, 1), (1, 2), (2, 1), (2, 2), (3, 1)]
    if tier == "thorough":
        c += [(1, 3), (2, 3), (3, 2)]
    return c


def tu_text(cf):
    return '#include "vfit.hpp"\n' + "\n".join('extern "C" void fit_%d_%d(const double* i, double* o){ vfit::fit1d<%d,%d>(i,o);}' % (s, n, s, n) for s, n in cf) + "\n"


def deriv_at(c, K, d, end):
    """d-th derivative of sum_k c_k B_{k,K}(u) at u=0 (end=0) or u=1 (end=1)"""
    f = factorial(K) // factorial(K - d)
    acc = T.Const(0)
    for j in range(d + 1):
        coef = (-1) ** (d - j) * comb(d, j) * f
        idx = j if end == 0 else K - d + j
        acc = T.Add(acc, T.Mul(T.Const(coef), c[idx]))
    return acc


def tpow(x, k):
    r = T.Const(1)
    for _ in range(k):
        r = T.Mul(r, x)
    return r


def job(cf, cfall, tier):
    spec, N = cf
    name, K, inn, left, rght = SPECS[spec]
    T.reset_terms()
    res = check.Result()
    h = check.Harness("fit_" + tier, tu_text(cfall))
    dt, dx = G.syms("dt", N), G.syms("dx", N)
    ins = dt + dx
    asm = [(Cond("cmp", x, T.Const(Fraction(1, 100)), "oge"), True) for x in dt] + [(Cond("cmp", x, T.Const(100), "ole"), True) for x in dt]
    fn = "fit_%d_%d" % (spec, N)
    key = "fit_spline_1d/%s/N%d" % (name, N)
    nout = N * (K + 1)

    def sampler(k):
        r = random.Random(k)
        return [r.choice([0.05, 0.1, 0.5, 1.0, 3.0]) * r.uniform(0.8, 1.2) for _ in range(N)] + [r.uniform(-2, 2) for _ in range(N)]

    def obligations(ins_, o):
        c = [o[i * (K + 1):(i + 1) * (K + 1)] for i in range(N)]
        obl = []
        for i in range(N):
            obl.append(("seg%d/starts-at-0" % i, c[i][0], T.Const(0)))
            obl.append(("seg%d/ends-at-dx" % i, c[i][K], dx[i]))
        for i in range(N - 1):
            for d in range(1, inn + 1):
                # p_i^(d)(1) / dt_i^d = p_{i+1}^(d)(0) / dt_{i+1}^d   (cross-multiplied)
                obl.append(("knot%d/derivative%d-continuous" % (i + 1, d), T.Mul(deriv_at(c[i], K, d, 1), tpow(dt[i + 1], d)), T.Mul(deriv_at(c[i + 1], K, d, 0), tpow(dt[i], d))))
        for d in left:
            obl.append(("left-boundary/derivative%d=0" % d, deriv_at(c[0], K, d, 0), T.Const(0)))
        for d in rght:
            obl.append(("right-boundary/derivative%d=0" % d, deriv_at(c[N - 1], K, d, 1), T.Const(0)))
        return obl
    check.check_wrapper(res, h, fn, ins, nout, None, key, obligations=obligations, assumptions=asm, tol=1e-6, pid=PID, sampler=sampler, max_paths=600, nvalidate=8,
                        timeout_ms=20000)
    # memory errors on paths of a failed factorisation (singular pivot) are infeasible-but-unrefuted paths, not findings
    keep = []
    for v in res.violations:
        if v["key"].endswith("/memory"):
            res.notes.append(key + ": path with failed factorisation could not be refuted (reads the unset solution): " + v["what"][:120])
        else:
            keep.append(v)
    res.violations = keep
    res.obls = [(n_, ("undecided" if (s_ == "violated" and n_.endswith("/memory-safe")) else s_), h_, d_) for (n_, s_, h_, d_) in res.obls]
    return res


def main(tier):
    run = check.Run(PID, tier)
    check.JOB_BUDGET[0] = 400 if tier == "quick" else 3000
    cf = cfgs(tier)
    check.run_jobs([(_compile, (cf, tier))])
    run.extend(check.run_jobs([(job, (c, cf, tier)) for c in cf], timeout=1500 if tier == "quick" else 7200))
    run.bounds += ["(spec, segments): %s ; dt_i in [1e-2, 1e2] symbolic (any ratio), dx_i symbolic" % [(SPECS[s][0], n) for s, n in cf]]
    run.assumptions += ["layer R: exact arithmetic -- the floating-point conditioning of the sparse factorisations (where the MinDerivative defect named in the property lives) is outside",
                        "fit_spline on groups, fit_bspline, dubins_curve, reparameterize_spline: not encoded (DESIGN 13.6)"]
    return run.finish()


def _compile(cf, tier):
    check.Harness("fit_" + tier, tu_text(cf))
    return check.Result()
