"""C06: Bundle is the direct product of its parts; vectors and scalars are translation groups (DESIGN 4/C06)."""
import random
from symx import terms as T, groups as G, check, solver, oracles as O, engine
from . import grouptu, c02

PID = "C06"

# op -> (input kind(s), output kind)
OPS = {
    "compose": (("g", "g"), "g"), "inverse": (("g",), "g"), "exp": (("a",), "g"), "log": (("g",), "a"),
    "matrix": (("g",), "M"), "hat": (("a",), "M"), "Ad": (("g",), "D"), "ad": (("a",), "D"),
    "dr_exp": (("a",), "D"), "dr_expinv": (("a",), "D"), "dl_exp": (("a",), "D"), "dl_expinv": (("a",), "D"),
    "d2r_exp": (("a",), "H"), "d2r_expinv": (("a",), "H"), "identity": ((), "g"),
}


def tn_oracle(p, op, ins):
    n = p.N
    Z, I = T.Const(0), T.Const(1)
    if op == "compose":
        return [T.Add(x, y) for x, y in zip(ins[0], ins[1])]
    if op == "inverse":
        return [T.Neg(x) for x in ins[0]]
    if op in ("exp", "log"):
        return list(ins[0])
    if op == "matrix":
        return G.flat(p.docM(ins[0]))
    if op == "hat":
        return G.flat(p.hat(ins[0]))
    if op in ("Ad", "dr_exp", "dr_expinv", "dl_exp", "dl_expinv"):
        return G.flat(G.eye(n))
    if op == "ad":
        return G.flat(G.zeros(n, n))
    if op in ("d2r_exp", "d2r_expinv"):
        return [Z] * (n * n * n)
    if op == "identity":
        return [Z] * n
    raise ValueError(op)


def leaf_parts(B):
    """direct parts of the bundle with offsets (nested bundles are parts themselves, checked as their own shape)"""
    return list(zip(B.parts, B.offsets()))


def job(B, op, tier):
    T.reset_terms()
    res = check.Result()
    h = grouptu.harness(B)
    t = grouptu.tag(B)
    key = "%s/%s" % (t, op)
    kinds, okind = OPS[op]
    ins = []
    names = []
    for ki, k in enumerate(kinds):
        n = B.rep if k == "g" else B.dof
        ins.append(G.syms("%s%d_" % (k, ki), n))
    flat_in = [x for v in ins for x in v]
    nout = {"g": B.rep, "a": B.dof, "M": B.dim ** 2, "D": B.dof ** 2, "H": B.dof ** 3}[okind]
    asm = []
    gs_all = [v for v, k in zip(ins, kinds) if k == "g"]
    rules = [r for v in gs_all for r in B.rules(v)]
    T.CTX.rules = list(rules)
    if op == "log":
        asm = B.canon(ins[0])

    def sampler(k):
        r = random.Random(k)
        out = []
        for kk in kinds:
            out += B.random_element(r, 3.0) if kk == "g" else [r.uniform(-2, 2) for _ in range(B.dof)]
        return out
    res.functions.add(t + "_" + op)
    res.validated += h.validate(t + "_" + op, sampler, nout, 4)
    ex = engine.Explorer(h.mod, assumptions=asm, max_paths=128)
    paths = ex.explore(t + "_" + op, flat_in, nout)
    res.note_paths(paths, ex)
    # explore the parts on their own segments
    part_paths = []
    for p, (ro, do, mo) in leaf_parts(B):
        pin = []
        for v, k in zip(ins, kinds):
            pin.append(v[ro:ro + p.rep] if k == "g" else v[do:do + p.dof])
        if isinstance(p, G.Tn):
            part_paths.append([("tn", [], tn_oracle(p, op, pin))])
            continue
        hp = grouptu.harness(p)
        pnout = {"g": p.rep, "a": p.dof, "M": p.dim ** 2, "D": p.dof ** 2, "H": p.dof ** 3}[okind]
        exq = engine.Explorer(hp.mod, assumptions=asm, max_paths=64)
        qs = exq.explore(grouptu.tag(p) + "_" + op, [x for v in pin for x in v], pnout)
        res.note_paths(qs, exq)
        part_paths.append([("path", q.pc, q.outs) for q in qs if q.status == "ok"])
    nok = 0
    feas = solver.Feasibility(asm, 2000)
    for pi, bp in enumerate(paths):
        pk = "%s/path%d" % (key, pi)
        if bp.status != "ok":
            res.add_raw(pk, "undecided", "%s: %s" % (bp.status, bp.reason))
            continue
        nok += 1
        expected = {}  # flat output index -> list of (pc, term)
        covered = set()
        for (p, (ro, do, mo)), pps in zip(leaf_parts(B), part_paths):
            for kind, qpc, qouts in pps:
                # is the part path consistent with the bundle path?
                ok = True
                for c, pol in qpc:
                    if feas(bp.pc, c, pol) is False:
                        ok = False
                        break
                if not ok:
                    continue
                for idx, term in placement(B, p, ro, do, mo, okind, qouts):
                    expected.setdefault(idx, []).append((qpc, term))
        nbad = 0
        for idx in range(nout):
            alts = expected.get(idx)
            if not alts:
                # outside every diagonal block: must be the constant zero
                v = solver.check_identity(T.nf(bp.outs[idx]), pc=bp.pc, assumptions=asm)
                name = "%s/offblock%d" % (pk, idx)
            else:
                v = None
                for qpc, term in alts:
                    v = solver.check_identity(T.nf(T.Sub(bp.outs[idx], term)), pc=bp.pc + qpc, assumptions=asm, extra_rules=rules)
                    if v.status != "holds":
                        break
                name = "%s/entry%d" % (pk, idx)
            if v.status == "holds":
                res.add(name, v)
            else:
                nbad += 1
                res.add_raw(name, "violated" if v.status == "violated" else "undecided", v.how + " " + v.detail, v.dt)
                if v.status == "violated":
                    res.violations.append({"key": "%s/entry" % key, "what": "%s output %d differs from the part's own operation: %s" % (key, idx, v.detail[:200])})
    if not nok:
        res.errors.append(key + ": vacuous")
    return res


def placement(B, p, ro, do, mo, okind, outs):
    """(flat index in the bundle output, term) for a part's outputs"""
    if okind == "g":
        return [(ro + i, outs[i]) for i in range(p.rep)]
    if okind == "a":
        return [(do + i, outs[i]) for i in range(p.dof)]
    if okind == "M":
        return [((mo + i) * B.dim + mo + j, outs[i * p.dim + j]) for i in range(p.dim) for j in range(p.dim)]
    if okind == "D":
        return [((do + i) * B.dof + do + j, outs[i * p.dof + j]) for i in range(p.dof) for j in range(p.dof)]
    if okind == "H":
        d, D = p.dof, B.dof
        return [((do + j) * D * D + (do + b) * D + do + k, outs[j * d * d + b * d + k]) for j in range(d) for b in range(d) for k in range(d)]
    raise ValueError(okind)


NATIVE_TU = r'''
#include "vh.hpp"
#include <smooth/lie_groups/native.hpp>
template<typename V> V mk(const double* p, int n) { if constexpr (std::is_same_v<V,double>) { return p[0]; } else { V v(n); for (int i=0;i<n;++i) v(i)=p[i]; return v; } }
template<typename M> void putm(const M& m, double*& o) { if constexpr (std::is_arithmetic_v<M>) { *o++ = m; } else { vh::put(m, o); } }
#define NATIVE(TAG, V, N) \
 extern "C" void TAG##_compose(const double* in, double* out){ auto a=mk<V>(in,N), b=mk<V>(in+N,N); putm(smooth::composition(a,b), out);} \
 extern "C" void TAG##_inverse(const double* in, double* out){ auto a=mk<V>(in,N); putm(smooth::inverse(a), out);} \
 extern "C" void TAG##_exp(const double* in, double* out){ Eigen::Matrix<double, smooth::Dof<V>, 1> a(N); for(int i=0;i<N;++i)a(i)=in[i]; putm(smooth::exp<V>(a), out);} \
 extern "C" void TAG##_log(const double* in, double* out){ auto a=mk<V>(in,N); putm(smooth::log(a), out);} \
 extern "C" void TAG##_Ad(const double* in, double* out){ auto a=mk<V>(in,N); putm(smooth::Ad(a), out);} \
 extern "C" void TAG##_rplus(const double* in, double* out){ auto a=mk<V>(in,N); Eigen::Matrix<double, smooth::Dof<V>, 1> t(N); for(int i=0;i<N;++i)t(i)=in[N+i]; putm(smooth::rplus(a,t), out);} \
 extern "C" void TAG##_rminus(const double* in, double* out){ auto a=mk<V>(in,N), b=mk<V>(in+N,N); putm(smooth::rminus(a,b), out);} \
 extern "C" void TAG##_tang(const double* in, double* out){ Eigen::Matrix<double, smooth::Dof<V>, 1> a(N); for(int i=0;i<N;++i)a(i)=in[i]; \
   putm(smooth::ad<V>(a), out); putm(smooth::dr_exp<V>(a), out); putm(smooth::dr_expinv<V>(a), out); putm(smooth::dl_exp<V>(a), out); putm(smooth::dl_expinv<V>(a), out); \
   putm(smooth::d2r_exp<V>(a), out); putm(smooth::d2r_expinv<V>(a), out); putm(smooth::d2l_exp<V>(a), out); putm(smooth::d2l_expinv<V>(a), out);}
using V1 = Eigen::Matrix<double,1,1>; using V2 = Eigen::Vector2d; using V4 = Eigen::Vector4d; using VX = Eigen::VectorXd;
NATIVE(v1, V1, 1)
NATIVE(v2, V2, 2)
NATIVE(v4, V4, 4)
NATIVE(vx3, VX, 3)
NATIVE(sc, double, 1)
'''


def job_native(tier):
    """Eigen vectors (static and dynamic) and double through the free-function LieGroup interface are the additive group"""
    T.reset_terms()
    res = check.Result()
    h = check.Harness("native_lie", NATIVE_TU)
    for tag, n in [("v1", 1), ("v2", 2), ("v4", 4), ("vx3", 3), ("sc", 1)]:
        x = G.syms("x", n)
        y = G.syms("y", n)
        smp1 = lambda k, n=n: [random.Random(k * 3 + i).uniform(-3, 3) for i in range(n)]
        smp2 = lambda k, n=n: [random.Random(k * 5 + i).uniform(-3, 3) for i in range(2 * n)]
        kw = dict(tol=1e-12, pid=PID, nvalidate=3)
        check.check_wrapper(res, h, tag + "_compose", x + y, n, lambda ins, n=n: [T.Add(ins[i], ins[n + i]) for i in range(n)], "native/%s/compose" % tag, sampler=smp2, **kw)
        check.check_wrapper(res, h, tag + "_inverse", x, n, lambda ins: [T.Neg(v) for v in ins], "native/%s/inverse" % tag, sampler=smp1, **kw)
        check.check_wrapper(res, h, tag + "_exp", x, n, lambda ins: list(ins), "native/%s/exp" % tag, sampler=smp1, **kw)
        check.check_wrapper(res, h, tag + "_log", x, n, lambda ins: list(ins), "native/%s/log" % tag, sampler=smp1, **kw)
        check.check_wrapper(res, h, tag + "_Ad", x, n * n, lambda ins, n=n: G.flat(G.eye(n)), "native/%s/Ad" % tag, sampler=smp1, **kw)
        check.check_wrapper(res, h, tag + "_rplus", x + y, n, lambda ins, n=n: [T.Add(ins[i], ins[n + i]) for i in range(n)], "native/%s/rplus" % tag, sampler=smp2, **kw)
        check.check_wrapper(res, h, tag + "_rminus", x + y, n, lambda ins, n=n: [T.Sub(ins[i], ins[n + i]) for i in range(n)], "native/%s/rminus" % tag, sampler=smp2, **kw)
        Z = [T.Const(0)]
        tang = Z * (n * n) + G.flat(G.eye(n)) * 4 + Z * (4 * n ** 3)
        check.check_wrapper(res, h, tag + "_tang", x, len(tang), lambda ins, tang=tang: tang, "native/%s/ad,dr_exp,dr_expinv,dl_*,d2*" % tag, sampler=smp1, **kw)
    res.bounds.add("native types: Matrix<double,1,1>, Vector2d, Vector4d, VectorXd(3), double")
    return res


def shapes(tier):
    B = G.BASIC
    V = G.Tn
    s = [G.Bundle([B["SO3"], V(3)]), G.Bundle([V(2), B["SE2"]]), G.Bundle([B["SO3"], B["SO3"]]), G.Bundle([B["SE2"], B["SO3"], V(2)])]
    if tier == "thorough":
        inner = G.Bundle([B["SO2"], V(1)])
        s += [G.Bundle([B["C1"], B["SE3"], V(3)]), G.Bundle([inner, B["SE2"]]), G.Bundle([B["SO2"], B["SO3"], B["SE2"], V(2), B["SE3"]]),
              G.Bundle([V(1), V(2)]), G.Bundle([B["SE2"], B["SE2"], B["SO2"]]), G.Bundle([B["SO3"], B["SO2"], B["SO3"]])]
    return s


def _compile(g):
    grouptu.harness(g)
    return check.Result()


def all_groups(shapes_):
    seen = {}
    for b in shapes_:
        seen[b.name] = b
        for p in b.parts:
            if not isinstance(p, G.Tn):
                seen[p.name] = p
    return list(seen.values())


def main(tier):
    run = check.Run(PID, tier)
    sh = shapes(tier)
    check.run_jobs([(_compile, (g,)) for g in all_groups(sh)])
    jobs = [(job_native, (tier,))]
    for b in sh:
        for op in OPS:
            if op.startswith("d2") and (not b.has_d2 or (tier == "quick" and b.dof > 8)):
                continue
            jobs.append((job, (b, op, tier)))
    run.extend(check.run_jobs(jobs, timeout=900 if tier == "quick" else 1800))
    run.bounds += ["bundle shapes: " + ", ".join(b.name for b in sh)]
    run.assumptions += ["layer R", "parts are compared with the SAME library function instantiated on the part alone (direct-product structure); "
                        "that the parts themselves are right is C01-C05", "nested bundles are compared with the nested bundle as a part"]
    return run.finish()
