"""C09: minimize never makes things worse and terminates (DESIGN 4/C09).

The residual and its Jacobian are UNINTERPRETED functions (external symbols replaced by fresh function symbols with
congruence axioms), so 'for any residual function' is literally the quantifier.  The real minimize<Analytic> loop is
executed symbolically for a bounded number of iterations; z3 decides on every path that the costs handed to the callback
are non-increasing, that the argument finally holds the last iterate, and that iter/status obey their contract."""
import random
from fractions import Fraction
from symx import terms as T, groups as G, check, solver, engine
from symx.interp import Cond

PID = "C09"
TU = '#include "vopt.hpp"\n'


def uf(m, name, args, f):
    return T.Fn("uf:" + name, *[m.lift(a) for a in args])


def job(max_iter, strat, tier, part=0, nparts=1):
    T.reset_terms()
    res = check.Result()
    hs = check.Harness("minimize_sym", TU, native=False)
    hn = check.Harness("minimize_nat", TU, extra=("-DVOPT_NATIVE_UF",))
    key = "minimize/scalar-residual/max_iter%d/%s" % (max_iter, "disney" if strat else "ceres")
    # differential validation on a concrete residual family
    for k in range(4 if part == 0 else 0):
        inp = [random.Random(k).uniform(-3, 3), float(max_iter + 3), float(strat), 1e-6, 1e-6]
        a = hn.native("opt_minimize0", inp, 16)
        b, _ = hn.concrete("opt_minimize0", inp, 16)
        if any(abs(x - y) > 1e-9 * max(1, abs(x)) for x, y in zip(a, b)):
            raise RuntimeError("translation validation failed for minimize0: %r vs %r" % (a, b))
        res.validated += 1
    x0 = T.Sym("x0")
    ex = engine.Explorer(hs.mod, stubs={"uf": uf}, max_paths=800 if tier == "quick" else 6000, feas_timeout_ms=800)
    paths = ex.explore("opt_minimize0", [x0, float(max_iter), float(strat), 1e-6, 1e-6], 16)
    res.note_paths(paths, ex)
    res.functions.add("opt_minimize0")
    if ex.truncated:
        res.notes.append(key + ": path budget exhausted; unexplored paths are outside the claim")
        res.bounds.add(key + ": at most %d paths" % ex.max_paths)
    nok = 0
    if part != 0:
        res.paths, res.steps = 0, 0     # the exploration is repeated in every part; count it once
    for pi, p in enumerate(paths):
        pk = "%s/path%d" % (key, pi)
        if pi % nparts != part:
            nok += 1 if p.status == "ok" else 0
            continue
        if p.status != "ok":
            res.add_raw(pk, "undecided", "%s: %s" % (p.status, p.reason))
            continue
        nok += 1
        o = p.outs
        if not all(o[k].op == "const" for k in (0, 1, 3)):
            res.errors.append(pk + ": symbolic status/iter")
            continue
        status, it, ncb = int(o[0].args[0]), int(o[1].args[0]), int(o[3].args[0])
        ok = it <= max_iter and (status != 2 or it == max_iter) and 1 <= ncb <= it + 1
        res.add_raw(pk + "/iter<=max_iter, MaxIters only at the bound, callbacks <= iter+1", "holds" if ok else "violated", "concrete on this path: status=%d iter=%d callbacks=%d" % (status, it, ncb))
        if not ok:
            res.violations.append({"key": key + "/contract", "what": "%s: status=%d iter=%d callbacks=%d on path [%s]" % (key, status, it, ncb, p.pc_str()[:200])})
        # final argument == last iterate handed to the callback
        last = o[4 + 2 * (min(ncb, 6) - 1)]
        v = solver.check_identity(T.nf(T.Sub(o[2], last)), pc=p.pc)
        res.add_raw(pk + "/argument holds the last iterate", "holds" if v.status == "holds" else "undecided", v.how, v.dt)
        # monotone cost
        for k in range(min(ncb, 6) - 1):
            c0, c1 = o[5 + 2 * k], o[5 + 2 * (k + 1)]
            okm = solver.entails(p.pc, Cond("cmp", c1, c0, "ole"), True, timeout_ms=8000)
            name = "%s/cost%d<=cost%d" % (pk, k + 1, k)
            if okm:
                res.add_raw(name, "holds", "z3 over uninterpreted residual symbols: path condition entails |f(x_%d)|^2 <= |f(x_%d)|^2" % (k + 1, k))
                continue
            # candidate: realise the solver's model of the uninterpreted residual by a concrete function and replay it on the real minimize
            w = None
            rs, model = solver.counterexample(p.pc, Cond("cmp", c1, c0, "ole"), True, timeout_ms=8000)
            if rs == "sat":
                w = replay_model(hn, model, o, k, max_iter, strat)
            if w is None:
                w = replay_battery(hn, max_iter, strat)
            if w is not None:
                res.add_raw(name, "violated", "z3 model of the residual realised by a quadratic and replayed natively: cost increases")
                vkey = key + "/monotone-cost"
                if not any(x["key"] == vkey for x in res.violations):
                    res.violations.append({"key": vkey, "what": "%s: the cost handed to the callback increases from %.6g to %.6g (residual %s, x0=%.6g)" % (key, w["c0"], w["c1"], w["residual"], w["inputs"][0]),
                                           "replay": dict(w, property=PID, key=vkey, tu_name=hn.name, tu_text=hn.text, extra=list(hn.extra), fn="opt_minimize0p", nout=16, tol=0.0,
                                                          obligation="cost_k+1 <= cost_k", lhs=str(w["c1"]), rhs=str(w["c0"]), err=w["c1"] - w["c0"])})
            else:
                res.add_raw(name, "undecided", "z3 %s for monotonicity on path [%s]; model/battery not reproduced natively" % (rs, p.pc_str()[:150]))
    if not nok:
        res.errors.append(key + ": vacuous")
    res.stubs.add("UF_F0, UF_J0: uninterpreted residual and Jacobian (congruence axioms); std::chrono::now returns 0")
    return res


def run_poly(hn, x0, max_iter, strat, P, label):
    inp = [float(x0), float(max_iter), float(strat), 1e-6, 1e-6] + [float(v) for v in P]
    if any(v != v or abs(v) > 1e150 for v in inp):
        return None
    try:
        out = hn.native("opt_minimize0p", inp, 16)
    except Exception:
        return None
    ncb = int(out[3])
    for k in range(min(ncb, 6) - 1):
        a, b = out[5 + 2 * k], out[5 + 2 * (k + 1)]
        if a == a and b == b and b > a * (1 + 1e-9) + 1e-300:
            return {"inputs": inp, "native": out, "c0": a, "c1": b, "residual": label}
    return None


def replay_model(hn, model, o, k, max_iter, strat):
    """quadratic residual through (x_k, f_k, J_k) and (x_{k+1}, f_{k+1}) taken from the solver's model"""
    env = {}
    atoms = []
    for i, v in model.items():
        info = T.ATOM_LIST[i]
        if info[0] == "sym":
            env[info[1]] = v
        elif info[0] == "fn" and info[1].startswith("uf:"):
            atoms.append((info[1], info[2][0], v))
    table = {}

    def lookup(name):
        def f(a):
            best = min(table.get(name, []), key=lambda e: abs(e[0] - a), default=None)
            if best is None or abs(best[0] - a) > 1e-9 * max(1.0, abs(a)):
                raise KeyError(name)
            return best[1]
        return f
    env["uf:UF_F0"], env["uf:UF_J0"] = lookup("uf:UF_F0"), lookup("uf:UF_J0")
    pending = list(atoms)
    for _ in range(len(atoms) + 1):          # arguments may contain other UF atoms: resolve in dependency order
        rest = []
        for name, arg, v in pending:
            try:
                table.setdefault(name, []).append((T.evaluate(arg, env), v))
            except Exception:
                rest.append((name, arg, v))
        pending = rest
        if not pending:
            break
    try:
        x0 = env["x0"]
        xa = T.evaluate(o[4 + 2 * k], env)
        xb = T.evaluate(o[4 + 2 * (k + 1)], env)
        fa, ja, fb = env["uf:UF_F0"](xa), env["uf:UF_J0"](xa), env["uf:UF_F0"](xb)
    except Exception:
        return None
    if k != 0 or xb == xa:
        return None   # only the first step is realised exactly (later iterates depend on values the quadratic does not pin)
    c = (fb - fa - ja * (xb - xa)) / (xb - xa) ** 2
    P = [fa - ja * xa + c * xa * xa, ja - 2 * c * xa, c, 0.0, 0.0]
    return run_poly(hn, x0, max_iter, strat, P, "quadratic interpolating the solver model: f(%.6g)=%.6g, f'=%.6g, f(%.6g)=%.6g" % (xa, fa, ja, xb, fb))


BATTERY = [("atan(x)", 2.0, [0, 0, 0, 0, 1]), ("x^3-2x+2", 0.0, [2, -2, 0, 1, 0]), ("atan(x)", -3.0, [0, 0, 0, 0, 1]), ("x^3-2x+2", 1.0, [2, -2, 0, 1, 0])]


def replay_battery(hn, max_iter, strat):
    """residuals with overshooting Gauss-Newton steps (the trial step has negative actual reduction)"""
    for label, x0, P in BATTERY:
        w = run_poly(hn, x0, max(max_iter, 1), strat, P, label)
        if w is not None:
            return w
    return None


def main(tier):
    run = check.Run(PID, tier)
    check.run_jobs([(_compile, ())])
    NP = 5   # the obligations of one (max_iter, strategy) configuration are decided in NP parallel parts (paths pi % NP == part)
    jobs = [(job, (1, s_, tier, i, NP)) for s_ in (0, 1) for i in range(NP)] + [(job, (0, 0, tier))]
    if tier == "thorough":
        jobs += [(job, (2, s_, tier, i, NP)) for s_ in (0, 1) for i in range(NP)]
    run.extend(check.run_jobs(jobs, timeout=1500 if tier == "quick" else 3000))
    run.bounds += ["scalar residual R -> R^1 with uninterpreted F and J, one unknown; max_iter in {0,1} quick, {0,1,2} thorough; both trust-region strategies; ftol = ptol = 1e-6"]
    run.assumptions += ["layer R (exact arithmetic): the rounding error of evaluating f is outside", "convergence to the minimiser within 1e-3 (an iterative-method statement) is not claimed",
                        "multi-dimensional residuals: Eigen's stableNorm scaling forks on every |.| comparison; not explored"]
    return run.finish()


def _compile():
    check.Harness("minimize_sym", TU, native=False)
    check.Harness("minimize_nat", TU, extra=("-DVOPT_NATIVE_UF",))
    return check.Result()
