"""C19: sparse Lie-group derivative routines equal the dense ones (DESIGN 4/C19)."""
import random
from symx import terms as T, groups as G, check, solver, engine
from . import grouptu

PID = "C19"
OFFSETS_Q = [0, 1]
OFFSETS_T = [0, 1, 4]


def shapes():
    B = G.BASIC
    return [B["SO2"], B["SO3"], B["SE2"], B["SE3"], B["C1"], G.Bundle([B["SO3"], G.Tn(3)]), G.Bundle([B["SE2"], G.Bundle([B["SO2"], G.Tn(1)])])]


def tu_text(g, offsets):
    t = grouptu.tag(g)
    lines = ['#include "vsparse.hpp"', "using G = %s;" % grouptu.cpp_type(g)]
    lines.append('extern "C" void %s_ad(const double* i, double* o){ vsp::ad<G>(i,o);}' % t)
    for i0 in offsets:
        for inv in (0, 1):
            lines.append('extern "C" void %s_dexp_%d_%d(const double* i, double* o){ vsp::dexp<G,%d,%s>(i,o);}' % (t, i0, inv, i0, "true" if inv else "false"))
            if g.has_d2:
                lines.append('extern "C" void %s_d2exp_%d_%d(const double* i, double* o){ vsp::d2exp<G,%d,%s>(i,o);}' % (t, i0, inv, i0, "true" if inv else "false"))
    return "\n".join(lines) + "\n"


def job(g, kind, i0, inv, offsets, tier):
    T.reset_terms()
    res = check.Result()
    h = check.Harness("sparse_" + grouptu.tag(g) + ("_t" if len(offsets) > 2 else ""), tu_text(g, offsets))
    t = grouptu.tag(g)
    D = g.dof
    a = G.syms("a", D)
    sent = [T.Sym("stale"), T.Sym("sentinelA"), T.Sym("sentinelB")]
    ins = a + sent
    if kind == "ad":
        fn = "%s_ad" % t
        N, rows, cols = D, D, D
        ndense = D * D
    elif kind == "dexp":
        fn = "%s_dexp_%d_%d" % (t, i0, inv)
        N = i0 + D + 1
        rows, cols = N, N
        ndense = D * D
    else:
        fn = "%s_d2exp_%d_%d" % (t, i0, inv)
        N = i0 + D + 1
        rows, cols = N, N * N
        ndense = D * D * D
    nout = rows * cols + ndense + 3
    key = "%s/%s%s/offset%d" % (t, kind, "inv" if inv else "", i0)

    def sampler(k):
        r = random.Random(k)
        return [r.uniform(-1.5, 1.5) for _ in range(D)] + [7.0, 11.0, 13.0]
    res.functions.add(fn)
    res.validated += h.validate(fn, sampler, nout, 3)
    ex = engine.Explorer(h.mod, max_paths=64)
    paths = ex.explore(fn, ins, nout)
    res.note_paths(paths, ex)
    nok = 0
    for pi, p in enumerate(paths):
        pk = "%s/path%d" % (key, pi)
        if p.status == "memerror":
            res.add_raw(pk + "/memory", "violated", p.reason)
            res.violations.append({"key": key + "/memory", "what": "%s: %s" % (key, p.reason)})
            continue
        if p.status != "ok":
            res.add_raw(pk, "undecided", "%s: %s" % (p.status, p.reason))
            continue
        nok += 1
        host = [p.outs[r * cols:(r + 1) * cols] for r in range(rows)]
        dense = p.outs[rows * cols: rows * cols + ndense]
        fl = p.outs[rows * cols + ndense:]
        # structure
        okf = all(f.op == "const" and f.args[0] == 1 for f in fl)
        res.add_raw(pk + "/structure", "holds" if okf else "violated", "nonZeros unchanged, still compressed, outer/inner index arrays unchanged (concrete integers)")
        if not okf:
            res.violations.append({"key": key + "/structure", "what": key + ": sparsity structure changed (flags %s)" % [str(f) for f in fl]})
        # map host positions to dense entries
        expect = {}
        if kind == "ad":
            for i in range(D):
                for j in range(D):
                    expect[(i, j)] = dense[i * D + j]
        elif kind == "dexp":
            for i in range(D):
                for j in range(D):
                    expect[(i0 + i, i0 + j)] = dense[i * D + j]
        else:
            for r in range(D):
                for c in range(D * D):
                    blk, col = c // D, c % D
                    expect[(i0 + r, N * (i0 + blk) + i0 + col)] = dense[r * D * D + c]
        bad = 0
        nsent = 0
        for r in range(rows):
            for c in range(cols):
                v = host[r][c]
                if (r, c) in expect:
                    e = expect[(r, c)]
                    if v is e:
                        continue
                    vd = solver.check_identity(T.nf(T.Sub(v, e)), pc=p.pc)
                    if vd.status != "holds":
                        bad += 1
                        res.add_raw("%s/block(%d,%d)" % (pk, r, c), "violated" if vd.status == "violated" else "undecided",
                                    "sparse entry differs from dense routine (or entry missing from the published pattern): " + vd.detail[:120])
                        if vd.status == "violated":
                            res.violations.append({"key": key + "/block", "what": "%s: host(%d,%d) != dense entry; %s" % (key, r, c, vd.detail[:160])})
                else:
                    # outside the block: sentinel untouched or structural zero
                    if v.op == "sym" and v.args[0].startswith("sentinel"):
                        nsent += 1
                    elif v.op == "const" and v.args[0] == 0:
                        pass
                    else:
                        bad += 1
                        res.add_raw("%s/outside(%d,%d)" % (pk, r, c), "violated", "entry outside the designated block modified: %s" % T.tstr(v))
                        res.violations.append({"key": key + "/outside", "what": "%s: entry (%d,%d) outside the block was modified" % (key, r, c)})
        want_sent = 0 if kind == "ad" else (3 if i0 > 0 else 2)
        if nsent != want_sent:
            bad += 1
            res.add_raw(pk + "/sentinels", "violated", "%d of %d sentinel entries survived" % (nsent, want_sent))
            res.violations.append({"key": key + "/sentinel", "what": "%s: stored entries outside the block were overwritten" % key})
        if not bad:
            res.add_raw(pk + "/block-equals-dense", "holds", "all %d block entries equal the dense routine's terms (term identity or z3), incl. pattern completeness "
                        "(entries outside the published pattern are identically 0 in the dense result); %d sentinels untouched" % (len(expect), nsent))
    if not nok:
        res.errors.append(key + ": vacuous")
    return res


def _compile(g, offsets):
    check.Harness("sparse_" + grouptu.tag(g) + ("_t" if len(offsets) > 2 else ""), tu_text(g, offsets))
    return check.Result()


def main(tier):
    run = check.Run(PID, tier)
    offsets = OFFSETS_Q if tier == "quick" else OFFSETS_T
    sh = shapes()
    check.run_jobs([(_compile, (g, offsets)) for g in sh])
    jobs = []
    for g in sh:
        jobs.append((job, (g, "ad", 0, 0, offsets, tier)))
        for i0 in offsets:
            for inv in (0, 1):
                jobs.append((job, (g, "dexp", i0, inv, offsets, tier)))
                if g.has_d2 and (tier == "thorough" or g.dof <= 4 or i0 == 0):
                    jobs.append((job, (g, "d2exp", i0, inv, offsets, tier)))
    run.extend(check.run_jobs(jobs, timeout=900))
    run.bounds += ["groups: " + ", ".join(g.name for g in sh), "block offsets %s, host = pattern + sentinel entries, (I0+Dof+1) rows" % offsets]
    run.assumptions += ["dense routines themselves are C04/C05", "layer R for the entry comparison; structure decided on concrete integers"]
    return run.finish()
