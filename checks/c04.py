"""C04: first-order derivative formulas are the true Jacobians (DESIGN 4/C04).

Oracle: the defining relation exp(a+d) = exp(a) exp(J d + o(d)) applied to the C02 oracle E(a)=expm(hat a):
column k of dr_exp(a) is vee(E(-a) dE/da_k), of dl_exp(a) vee(dE/da_k E(-a)) -- symbolic differentiation of the
Hermite-interpolation matrix exponential, independent of the library's series formulas.  The inverses are decided
through oracle_J * impl_Jinv = I."""
import random, math
from fractions import Fraction
from symx import terms as T, groups as G, check, solver, oracles as O
from symx.interp import Cond
from . import grouptu, c02

PID = "C04"
TOL = 1e-7


def jac_oracle(g, a, left=False):
    E = O.exp_oracle(g, a, "closed")
    Em = O.exp_oracle(g, [T.Neg(x) for x in a], "closed")
    cols = []
    for k in range(g.dof):
        dE = [[T.diff(e, "a%d" % k) for e in row] for row in E]
        P = G.mm(dE, Em) if left else G.mm(Em, dE)
        cols.append(g.vee(P))
    return [[cols[k][i] for k in range(g.dof)] for i in range(g.dof)]


def decide(term, g, a, p, reg, asm, res, tol=TOL, timeout_ms=10000):
    """identity on closed-form paths, enclosure bound on series paths"""
    if any(r[0] == "series" for r in reg.values()):
        with T.poly_budget(60000):
            num, den = c02.series_residual(term, g, a, reg)
            worst = None
            for L in c02.LBOX:
                box = c02.series_box(num, den, g, reg, L)
                if box is None:
                    return solver.Verdict("undecided", "series path with an atom that cannot be enclosed")
                v = solver.check_bound(num, box, Fraction(tol), den_poly=None if T.p_is_const(den) else den, max_split=12)
                if v.status != "holds":
                    v.status = "undecided" if v.status == "undecided" else v.status
                    return v
                worst = v
            return worst
    return solver.check_identity(T.nf(term), pc=p.pc, assumptions=asm, timeout_ms=timeout_ms)


def mp_jac(g, a_num, left=False, inverse=False):
    """reference: J = sum_k (-+1)^k ad^k/(k+1)! evaluated by mpmath from the documented hat (ad by commutators)"""
    mp = check.mpmath()
    mp.mp.dps = 80
    n = g.dof
    # ad matrix numerically: ad(a) e_j = vee([hat a, hat e_j])
    names = ["a%d" % i for i in range(n)]

    def hatn(v):
        H = g.hat([T.Const(Fraction(0)) for _ in range(n)])
        syms = G.syms("a", n)
        Hs = g.hat(syms)
        env = {nm: mp.mpf(x) for nm, x in zip(names, v)}
        return mp.matrix([[T.evaluate(e, env, mp) for e in row] for row in Hs])
    A = hatn(a_num)
    ad = mp.zeros(n, n)
    for j in range(n):
        ej = [0] * n
        ej[j] = 1
        Ej = hatn(ej)
        C = A * Ej - Ej * A
        Cs = [[C[i, k] for k in range(C.cols)] for i in range(C.rows)]
        col = g.vee([[T.Const(0)] * g.dim for _ in range(g.dim)]) if False else None
        # vee numerically: reuse symbolic positions
        pos = vee_positions(g)
        for k in range(n):
            (i2, j2, sg) = pos[k]
            ad[k, j] = sg * C[i2, j2]
    sign = 1 if left else -1
    J = mp.zeros(n, n)
    term = mp.eye(n)
    nt = int(60 + 8 * max(abs(x) for x in a_num))
    for k in range(nt):
        J += term / mp.factorial(k + 1)
        term = term * ad * sign
    if inverse:
        J = J ** -1
    return J


_vp = {}


def vee_positions(g):
    if g.name in _vp:
        return _vp[g.name]
    a = G.syms("vp!", g.dof)
    H = g.hat(a)
    out = [None] * g.dof
    for i, row in enumerate(H):
        for j, e in enumerate(row):
            for k in range(g.dof):
                if out[k] is None:
                    if e is a[k]:
                        out[k] = (i, j, 1)
                    elif e.op == "neg" and e.args[0] is a[k]:
                        out[k] = (i, j, -1)
    _vp[g.name] = out
    return out


def job(g, fn, tier, rows=None):
    T.reset_terms()
    res = check.Result()
    h = grouptu.harness(g)
    t = grouptu.tag(g)
    key = "%s/%s" % (t, fn)
    a = G.syms("a", g.dof)
    n = g.dof
    left = fn.startswith("dl_")
    inv = fn.endswith("inv")
    asm = []
    if inv:
        # inverses: rotation norm below pi - 1e-3 (sin(theta/2) != 0 away from 0)
        for blk, ro, do, mo in O.group_blocks(g):
            if blk.rot:
                ang = O.Angle([a[do + i] for i in blk.rot])
                asm.append((Cond("cmp", ang.t, T.Const(Fraction(98633, 10000)), "olt"), True))
    sampler = c02.tangent_sampler(g)
    if inv:
        base = sampler

        def sampler(k):
            v = base(k)
            for blk, ro, do, mo in O.group_blocks(g):
                if blk.rot:
                    nn = math.sqrt(sum(v[do + i] ** 2 for i in blk.rot))
                    if nn >= math.pi - 1e-3:
                        for i in blk.rot:
                            v[do + i] *= (math.pi - 2e-3) / nn
            return v
    res.functions.add(t + "_" + fn)
    if rows is None or 0 in rows:
        res.validated += h.validate(t + "_" + fn, c02.tangent_sampler(g, well_conditioned=True), n * n, 10)
    from symx import engine
    ex = engine.Explorer(h.mod, assumptions=asm, max_paths=64)
    paths = ex.explore(t + "_" + fn, a, n * n)
    res.note_paths(paths, ex)
    J = jac_oracle(g, a, left)
    nok = 0
    for pi, p in enumerate(paths):
        pk = "%s/path%d" % (key, pi)
        if p.status != "ok":
            if p.status == "unsupported":
                res.errors.append(pk + ": " + p.reason)
            else:
                res.add_raw(pk, "undecided", "%s: %s" % (p.status, p.reason))
            continue
        nok += 1
        reg = c02.regimes(g, a, p.pc, asm)
        M = [p.outs[i * n:(i + 1) * n] for i in range(n)]
        if inv:
            L = G.mm(J, M)
            R = G.eye(n)
        else:
            L, R = M, J
        bad = []
        for i in (range(n) if rows is None else rows):
            for j in range(n):
                try:
                    with T.time_budget(15 if tier == "quick" else 240):
                        v = decide(T.Sub(L[i][j], R[i][j]), g, a, p, reg, asm, res, timeout_ms=10000 if tier == "quick" else 60000)
                except (T.PolyTooBig, MemoryError):
                    v = solver.Verdict("undecided", "normal form too large / time budget")
                if v.status != "holds":
                    bad.append((i, j, v))
                else:
                    res.add("%s/J%d_%d" % (pk, i, j), v)
        if bad:
            w = native_witness(h, t, g, fn, sampler, left, inv)
            for (i, j, v) in bad:
                if w is not None:
                    v.status = "violated"
                    res.add("%s/J%d_%d" % (pk, i, j), v)
                else:
                    res.add_raw("%s/J%d_%d" % (pk, i, j), "undecided", v.how + " ; not reproduced natively", v.dt)
            if w is not None:
                res.violations.append({"key": key, "what": "%s: %s" % (key, w["what"]), "replay": w})
    if not nok:
        res.errors.append(key + ": vacuous")
    res.axioms.add("dr_exp(a) e_k = vee(E(-a) dE/da_k), dl_exp(a) e_k = vee(dE/da_k E(-a)) with E = expm(hat a) (C02 oracle)")
    res.bounds.add("inverses: rotation norm^2 < 9.8633 (= (pi-1e-3)^2)")
    return res


def native_witness(h, t, g, fn, sampler, left, inv, ntry=14):
    mp = check.mpmath()
    n = g.dof
    for k in range(ntry):
        a = sampler(k + 2000)
        out = h.native(t + "_" + fn, a, n * n)
        J = mp_jac(g, a, left, inv)
        sc = max([abs(J[i, j]) for i in range(n) for j in range(n)] + [mp.mpf(1)])
        worst = 0.0
        for i in range(n):
            for j in range(n):
                x = out[i * n + j]
                e = float(abs(mp.mpf(x) - J[i, j]) / sc) if x == x else float("inf")
                worst = max(worst, e)
        if not (worst <= TOL):
            return {"property": PID, "key": "%s/%s" % (t, fn), "tu_name": h.name, "tu_text": h.text, "fn": t + "_" + fn, "inputs": a, "nout": n * n,
                    "native": out, "err": worst, "tol": TOL, "what": "native %s(a) differs from the 60-term series (mpmath) by %.3g relative at a=%r" % (fn, worst, a)}
    return None


def job_action(g, tier):
    """dr_action(v) = d/de (g exp(e e_j)) v = M(g) hat(e_j) [v;1]"""
    T.reset_terms()
    res = check.Result()
    h = grouptu.harness(g)
    t = grouptu.tag(g)
    key = "%s/dr_action" % t
    gs = G.syms("g", g.rep)
    v = G.syms("v", g.act)

    def orc(ins):
        M = g.docM(ins[:g.rep])
        hv = list(ins[g.rep:]) + [T.Const(1)] * (g.dim - g.act)
        cols = []
        for j in range(g.dof):
            ej = [T.Const(1 if i == j else 0) for i in range(g.dof)]
            col = G.mv(G.mm(M, g.hat(ej)), hv)[:g.act]
            cols.append(col)
        return [cols[j][i] for i in range(g.act) for j in range(g.dof)]
    check.check_wrapper(res, h, t + "_dr_action", gs + v, g.act * g.dof, orc, key, tol=TOL, pid=PID, rules=g.rules(gs),
                        sampler=lambda k: g.random_element(random.Random(k), 10.0) + [random.Random(k + 3).uniform(-5, 5) for _ in range(g.act)])
    return res


def _compile(g):
    grouptu.harness(g)
    return check.Result()


def main(tier):
    run = check.Run(PID, tier)
    check.JOB_BUDGET[0] = 240 if tier == 'quick' else 1500
    B = G.BASIC
    groups = [B["SO2"], B["SO3"], B["SE2"], B["C1"], B["SE3"]]
    if tier == "thorough":
        groups += [B["Galilei"], B["SE_1_3"], B["SE_2_3"]] + grouptu.bundle_shapes("quick")
    check.run_jobs([(_compile, (g,)) for g in groups + ([B['Galilei'], B['SE_2_3']] if tier == 'quick' else [])])
    jobs = []
    if tier == "quick":
        # the less-used semidirect groups: direct Jacobians row by row (their inverses are thorough-only)
        for g in (B["Galilei"], B["SE_2_3"]):
            jobs += [(job, (g, fn, tier, [i])) for fn in ("dr_exp", "dl_exp") for i in range(g.dof)]
    for g in groups:
        for fn in ["dr_exp", "dr_expinv", "dl_exp", "dl_expinv"]:
            if g.dof <= 3:
                jobs.append((job, (g, fn, tier)))
            else:
                jobs += [(job, (g, fn, tier, [i])) for i in range(g.dof)]
    jobs += [(job_action, (g, tier)) for g in groups if g.act and g.name != "C1"]
    run.extend(check.run_jobs(jobs, timeout=900 if tier == "quick" else 1800))
    run.bounds += ["groups: " + ", ".join(g.name for g in groups) + ("; Galilei and SE_K_3<2>: dr_exp, dl_exp only" if tier == "quick" else "")]
    run.assumptions += ["layer R; rounding next to the series switch is not modelled", "exp oracle as decided in C02"]
    return run.finish()
