"""Generated harness TU per group: every generic wrapper of harness/vh.hpp instantiated for one concrete type."""
from symx import groups as G, check

FNS_BASE = ["compose", "inverse", "matrix", "identity", "exp", "log", "hat", "vee", "Ad", "ad", "bracket",
            "dr_exp", "dr_expinv", "dl_exp", "dl_expinv", "rplus", "rminus"]
FNS_D2 = ["d2r_exp", "d2r_expinv", "d2l_exp", "d2l_expinv", "rminus_derivs"]


def cpp_type(g, scalar="double"):
    if isinstance(g, G.Bundle):
        return "smooth::Bundle<%s>" % ", ".join(cpp_type(p, scalar) for p in g.parts)
    if isinstance(g, G.Tn):
        return "Eigen::Matrix<%s, %d, 1>" % (scalar, g.N)
    if isinstance(g, G.SEK3):
        return "smooth::SE_K_3<%s, %d>" % (scalar, g.K)
    return "smooth::%s<%s>" % (g.name, scalar)


def tag(g, scalar="double"):
    return g.name + ("_f" if scalar == "float" else "")


def tu_text(g, scalar="double"):
    t = tag(g, scalar)
    lines = ['#include "vh.hpp"', "using G = %s;" % cpp_type(g, scalar), "using S = %s;" % scalar]
    fns = list(FNS_BASE) + (FNS_D2 if g.has_d2 else [])
    for f in fns:
        lines.append("VH_EXPORT(%s_%s, S, vh::%s<G>)" % (t, f, f))
    if g.act:
        lines.append("extern \"C\" void %s_action(const S* in, S* out) { vh::action<G, %d>(in, out); }" % (t, g.act))
        if g.name != "C1":
            lines.append("extern \"C\" void %s_dr_action(const S* in, S* out) { vh::dr_action<G, %d>(in, out); }" % (t, g.act))
    return "\n".join(lines) + "\n"


_cache = {}


def harness(g, scalar="double", native=True):
    k = (g.name, scalar)
    if k not in _cache:
        _cache[k] = check.Harness("grp_" + tag(g, scalar), tu_text(g, scalar), native=native)
    return _cache[k]


def bundle_shapes(tier):
    B = G.BASIC
    V = G.Tn
    shapes = [G.Bundle([B["SO3"], V(3)]), G.Bundle([B["SE2"], B["SO3"], V(2)])]
    if tier == "thorough":
        shapes += [G.Bundle([B["SO2"], B["SO3"], B["SE2"], V(2), B["SE3"]]), G.Bundle([V(2), B["SE2"]]),
                   G.Bundle([B["SO3"], B["SO3"]]), G.Bundle([B["C1"], B["SE3"], V(3)]),
                   G.Bundle([G.Bundle([B["SO2"], V(1)]), B["SE2"]]), G.Bundle([V(1), V(2)])]
    return shapes
