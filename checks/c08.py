"""C08: tangent-space differentiation returns the true derivatives (DESIGN 4/C08)."""
import random, math
from fractions import Fraction
from symx import terms as T, groups as G, check, solver, engine
from symx.interp import Cond

PID = "C08"


def harness(sym=True):
    if sym:
        return check.Harness("diff_sym", '#include "vdiff.hpp"\n', native=False)
    return check.Harness("diff_nat", '#include "vdiff.hpp"\n', extra=("-DVDIFF_NATIVE_UF",))


class Both:
    """symbolic module without UF definitions, native library with them"""

    def __init__(self):
        self.s = harness(True)
        self.n = harness(False)
        self.mod = self.s.mod
        self.name, self.text, self.extra = self.n.name, self.n.text, self.n.extra

    def native(self, *a, **k):
        return self.n.native(*a, **k)

    def validate(self, fn, sampler, nout, n, fbits=64, rtol=1e-4):
        return self.n.validate(fn, sampler, nout, n, fbits, rtol)


def uf(m, name, args, f):
    return T.Fn("uf:" + name, *[m.lift(a) for a in args])


REGIONS = {1: (Fraction(1, 10), Fraction(1)), 2: (Fraction(1), Fraction(2)), -1: (Fraction(-2), Fraction(-1)), 3: (Fraction(3), Fraction(4))}


def nonzero_asm(syms, sign=1):
    """coordinates in one unit interval: the step-size scaling in diff_impl.hpp calls the INTEGER abs() on a double (unqualified
    abs), so the step is eps*trunc|w_j| (eps when that is 0); each unit interval of every coordinate is a separate path.
    Regions: 1: (0.1,1)  2: (1,2)  -1: (-2,-1)  3: (3,4)"""
    lo, hi = REGIONS[sign]
    return [(Cond("cmp", s, T.Const(lo), "ogt"), True) for s in syms] + [(Cond("cmp", s, T.Const(hi), "olt"), True) for s in syms]


def job_lin(const, tier, sign=1):
    T.reset_terms()
    res = check.Result()
    h = Both()
    A, b, C, c = G.syms("A", 4), G.syms("b", 2), G.syms("C", 4), G.syms("c", 2)
    x, y, z = G.syms("x", 2), [T.Sym("y")], G.syms("z", 2)
    ins = A + b + C + c + x + y + z
    asm = nonzero_asm(x + y + z, sign)
    fn = "diff_lin_const" if const else "diff_lin"
    key = "numerical/linear/%s/%s" % ("const-args" if const else "mutable-args", "region%d" % sign)

    def sampler(k):
        r = random.Random(k)
        return [r.uniform(-2, 2) for _ in range(12)] + [r.uniform(float(REGIONS[sign][0]) + 1e-3, float(REGIONS[sign][1]) - 1e-3) for _ in range(5)]

    def obligations(ins_, o):
        val = [T.Add(T.Add(T.Add(G.dot(A[2 * i:2 * i + 2], x), T.Mul(b[i], y[0])), G.dot(C[2 * i:2 * i + 2], z)), c[i]) for i in range(2)]
        obl = [("value%d" % i, o[i], val[i]) for i in range(2)]
        Jt = [[A[0], A[1], b[0], C[0], C[1]], [A[2], A[3], b[1], C[2], C[3]]]
        for i in range(2):
            for j in range(5):
                obl.append(("J%d_%d" % (i, j), o[2 + i * 5 + j], Jt[i][j]))
        for j, w in enumerate(x + y + z):
            obl.append(("arg%d-restored" % j, o[12 + j], w))
        return obl
    res.validated += h.validate(fn, sampler, 17, 5)
    check.check_wrapper(res, h, fn, ins, 17, None, key, obligations=obligations, assumptions=asm, tol=1e-4, pid=PID, sampler=sampler, max_paths=2500, nvalidate=0)
    res.axioms.add("forward differences are exact on affine maps in real arithmetic for every step size: J == [A b C] pins column placement and static/dynamic bookkeeping")
    return res


def job_quad(tier):
    T.reset_terms()
    res = check.Result()
    h = Both()
    Q, q = G.syms("Q", 9), G.syms("q", 3)
    x, y = G.syms("x", 2), [T.Sym("y")]
    w = x + y
    ins = Q + q + x + y
    asm = nonzero_asm(w)

    def sampler(k):
        r = random.Random(k)
        return [r.uniform(-1, 1) for _ in range(12)] + [r.uniform(0.11, 0.99) for _ in range(3)]

    def obligations(ins_, o):
        Qm = [Q[3 * i:3 * i + 3] for i in range(3)]
        val = T.Add(T.Mul(T.Const(Fraction(1, 2)), G.dot(w, G.mv(Qm, w))), G.dot(q, w))
        obl = [("value", o[0], val)]
        for i in range(3):
            for j in range(3):
                # ny = 1: H(I0+k0, 0*nx + I1+k1) = d2f/dw_i dw_j = (Q_ij + Q_ji)/2
                obl.append(("H%d_%d" % (i, j), o[4 + i * 3 + j], T.Mul(T.Const(Fraction(1, 2)), T.Add(Qm[i][j], Qm[j][i]))))
        for j in range(3):
            obl.append(("arg%d-restored" % j, o[13 + j], w[j]))
        return obl
    res.validated += h.validate("diff_quad", sampler, 16, 5)
    paths = check.check_wrapper(res, h, "diff_quad", ins, 16, None, "numerical/quadratic/K2", obligations=obligations, assumptions=asm, tol=5e-2, pid=PID, sampler=sampler,
                                max_paths=2500, nvalidate=0)
    # first derivatives in K=2 mode: J - J_true is the O(h) term of the forward difference; decided as a bound on a box
    for pi, p in enumerate(paths):
        if p.status != "ok":
            continue
        Qm = [Q[3 * i:3 * i + 3] for i in range(3)]
        for j in range(3):
            Jtrue = T.Add(T.Mul(T.Const(Fraction(1, 2)), T.Add(G.dot(Qm[j], w), G.dot([Qm[i][j] for i in range(3)], w))), q[j])
            num, den = T.nf(T.Sub(p.outs[1 + j], Jtrue))
            ok = False
            if T.p_is_const(den):
                box = solver.box_for([num], lambda nm: (Fraction(-1), Fraction(1)) if nm[0] in "Qq" else (Fraction(-3), Fraction(3)))
                v = solver.check_bound(T.p_scale(num, 1 / den[()]), box, Fraction(5, 10**4), max_split=8)
                ok = v.status == "holds"
            res.add_raw("numerical/quadratic/K2/path%d/J%d within 5e-4 on |Q|,|q|<=1, |w|<=3" % (pi, j), "holds" if ok else "undecided", "LRA relaxation of the O(h) forward-difference term")
    res.axioms.add("second differences are exact on quadratics: H layout H(I0+k0, j*nx + I1+k1) decided exactly")
    return res


def job_quad2(tier):
    """vector-valued quadratic, ny = 2 != nx = 3: pins the block stride of the stacked Hessian layout (block m starts at column m*nx)"""
    T.reset_terms()
    res = check.Result()
    h = Both()
    Q0, Q1, q0, q1 = G.syms("Q", 9), G.syms("R", 9), G.syms("q", 3), G.syms("r", 3)
    x, y = G.syms("x", 2), [T.Sym("y")]
    w = x + y
    ins = Q0 + Q1 + q0 + q1 + x + y
    asm = nonzero_asm(w)
    nout = 2 + 6 + 18 + 2 + 3

    def sampler(k):
        r = random.Random(k)
        return [r.uniform(-1, 1) for _ in range(24)] + [r.uniform(0.11, 0.99) for _ in range(3)]

    def obligations(ins_, o):
        obl = []
        for m, (Q, q) in enumerate(((Q0, q0), (Q1, q1))):
            Qm = [Q[3 * i:3 * i + 3] for i in range(3)]
            obl.append(("value%d" % m, o[m], T.Add(T.Mul(T.Const(Fraction(1, 2)), G.dot(w, G.mv(Qm, w))), G.dot(q, w))))
            for i in range(3):
                for j in range(3):
                    # documented layout: H(i, m*nx + j) = d2 f_m / dw_i dw_j
                    obl.append(("H%d_%d_%d" % (m, i, j), o[8 + i * 6 + m * 3 + j], T.Mul(T.Const(Fraction(1, 2)), T.Add(Qm[i][j], Qm[j][i]))))
        obl.append(("H.rows", o[26], T.Const(3)))
        obl.append(("H.cols", o[27], T.Const(6)))
        for j in range(3):
            obl.append(("arg%d-restored" % j, o[28 + j], w[j]))
        return obl
    res.validated += h.validate("diff_quad2", sampler, nout, 5)
    check.check_wrapper(res, h, "diff_quad2", ins, nout, None, "numerical/quadratic-vector-valued/K2", obligations=obligations, assumptions=asm, tol=5e-2, pid=PID, sampler=sampler,
                        max_paths=2500, nvalidate=0)
    res.axioms.add("second differences are exact on quadratics: block m of the stacked Hessian occupies columns m*nx .. m*nx+nx-1 (ny != nx separates the two strides)")
    return res


def job_subset(tier):
    T.reset_terms()
    res = check.Result()
    h = Both()
    A, b, C, c = G.syms("A", 4), G.syms("b", 2), G.syms("C", 4), G.syms("c", 2)
    x, y, z = G.syms("x", 2), [T.Sym("y")], G.syms("z", 2)
    ins = A + b + C + c + x + y + z
    asm = nonzero_asm(x + y + z, 2)

    def sampler(k):
        r = random.Random(k)
        return [r.uniform(-2, 2) for _ in range(12)] + [r.uniform(1.01, 1.99) for _ in range(5)]

    def obligations(ins_, o):
        val = [T.Add(T.Add(T.Add(G.dot(A[2 * i:2 * i + 2], x), T.Mul(b[i], y[0])), G.dot(C[2 * i:2 * i + 2], z)), c[i]) for i in range(2)]
        obl = [("K0/value%d" % i, o[i], val[i]) for i in range(2)]
        Jt = [[A[0], A[1], C[0], C[1]], [A[2], A[3], C[2], C[3]]]
        for i in range(2):
            for j in range(4):
                obl.append(("subset<0,2>/J%d_%d" % (i, j), o[2 + i * 4 + j], Jt[i][j]))
        return obl
    res.validated += h.validate("diff_subset", sampler, 10, 5)
    check.check_wrapper(res, h, "diff_subset", ins, 10, None, "numerical/index-subset+K0", obligations=obligations, assumptions=asm, tol=1e-4, pid=PID, sampler=sampler,
                        max_paths=2500, nvalidate=0)
    return res


def job_analytic(tier):
    T.reset_terms()
    res = check.Result()
    h = Both()
    x, y = T.Sym("x"), T.Sym("y")

    def obligations(ins_, o):
        v = T.Fn("uf:UFD_val", x, y)
        jx, jy = T.Fn("uf:UFD_jx", x, y), T.Fn("uf:UFD_jy", x, y)
        return [("analytic/value", o[0], v), ("analytic/J0", o[1], jx), ("analytic/J1", o[2], jy), ("default/value", o[3], v), ("default/J0", o[4], jx), ("default/J1", o[5], jy),
                ("x-unchanged", o[6], x), ("y-unchanged", o[7], y)]
    res.validated += h.validate("diff_analytic", lambda k: [random.Random(k).uniform(-2, 2), random.Random(k + 1).uniform(-2, 2)], 8, 4)
    paths = check.check_wrapper(res, h, "diff_analytic", [x, y], 8, None, "analytic+default pass-through", obligations=obligations, tol=1e-12, pid=PID, stubs={"uf": uf},
                                sampler=lambda k: [random.Random(k).uniform(-2, 2), random.Random(k + 1).uniform(-2, 2)], nvalidate=0)
    res.stubs.add("UFD_val/UFD_jx/UFD_jy: uninterpreted functions (the callable's own value and jacobian)")
    return res


def job_action(tier):
    T.reset_terms()
    res = check.Result()
    h = Both()
    g = G.BASIC["SO3"]
    gs, v = G.syms("g", 4), G.syms("v", 3)
    rules = g.rules(gs)
    T.CTX.rules = list(rules)
    asm = nonzero_asm(v, 2) + g.canon(gs)
    ins = gs + v

    def sampler(k):
        r = random.Random(k)
        return g.random_element(r) + [r.uniform(1.01, 1.99) for _ in range(3)]
    res.validated += h.validate("diff_action", sampler, 28, 5)
    ex = engine.Explorer(h.mod, assumptions=asm, max_paths=300)
    paths = ex.explore("diff_action", ins, 28)
    res.note_paths(paths, ex)
    res.functions.add("diff_action")
    R = g.docM(gs)
    # true right-derivative: d/de (g exp(e e_j)) v = R hat(e_j) v ; d/dv = R
    Jt = [[None] * 6 for _ in range(3)]
    for j in range(3):
        ej = [T.Const(1 if i == j else 0) for i in range(3)]
        col = G.mv(G.mm(R, g.hat(ej)), v)
        for i in range(3):
            Jt[i][j] = col[i]
            Jt[i][3 + j] = R[i][j]

    def box_fn(nm):
        return (Fraction(-1), Fraction(1)) if nm.startswith("g") else (Fraction(-10), Fraction(10))
    nok = 0
    for pi, p in enumerate(paths):
        pk = "numerical/SO3-action/path%d" % pi
        if p.status != "ok":
            res.add_raw(pk, "undecided", "%s: %s" % (p.status, p.reason))
            continue
        nok += 1
        bad = 0
        for i in range(3):
            for j in range(6):
                num, den = T.nf(T.Sub(p.outs[3 + i * 6 + j], Jt[i][j]))
                num = T.reduce_poly(num, None, rules)
                if not T.p_is_const(den):
                    bad += 1
                    continue
                box = solver.box_for([num], box_fn)
                vb = solver.check_bound(T.p_scale(num, 1 / den[()]), box, Fraction(1, 10**3), max_split=4)   # 1e-4 relative to |v|<=10
                if vb.status != "holds":
                    bad += 1
        res.add_raw(pk + "/J within 1e-4*|v|max of R hat(e_j) v, R", "holds" if bad == 0 else "undecided", "LRA relaxation on |q_i|<=1, |v_i|<=10 (%d entries failed)" % bad)
        bad = 0
        for k in range(4):
            num, den = T.nf(T.Sub(p.outs[21 + k], gs[k]))
            num = T.reduce_poly(num, None, rules)
            box = solver.box_for([num], box_fn)
            vb = solver.check_bound(T.p_scale(num, 1 / den[()]), box, Fraction(1, 10**15), max_split=4) if T.p_is_const(den) else None
            if vb is None or vb.status != "holds":
                bad += 1
        for k in range(3):
            vd = solver.check_identity(T.nf(T.Sub(p.outs[25 + k], v[k])), pc=p.pc)
            if vd.status != "holds":
                bad += 1
        res.add_raw(pk + "/arguments restored (|dg| <= 1e-15, v exactly)", "holds" if bad == 0 else "undecided", "LRA relaxation / identity (%d entries failed)" % bad)
    if not nok:
        res.errors.append("SO3-action: vacuous")
    return res


def main(tier):
    run = check.Run(PID, tier)
    check.JOB_BUDGET[0] = 300
    check.run_jobs([(_compile, ())])
    jobs = [(job_lin, (0, tier, 1)), (job_lin, (0, tier, 2)), (job_lin, (0, tier, -1)), (job_lin, (0, tier, 3)), (job_lin, (1, tier, 1)), (job_quad, (tier,)), (job_quad2, (tier,)), (job_subset, (tier,)), (job_analytic, (tier,)), (job_action, (tier,))]
    run.extend(check.run_jobs(jobs, timeout=1200))
    run.bounds += ["families with SYMBOLIC coefficients: affine R^2 x R x R^n(dynamic) -> R^2, quadratic R^2 x R -> R (K=2), SO3 x R^3 action; coordinates non-zero (each sign is a path)",
                   "argument mixes: static vector, scalar, dynamic vector, SO3; const and non-const references; index subset <0,2>; K in {0,1,2}"]
    run.assumptions += ["layer R; the bit-precise restore kernel fl(fl(w+h)-h) (DESIGN 2.9) is not encoded: restoration is decided in real arithmetic (exact) and, for SO3, to 1e-15",
                        "accuracy on non-polynomial callables is a statement about their higher derivatives and outside the claim", "zero coordinates (eps_j = eps branch): differential validation only"]
    return run.finish()


def _compile():
    Both()
    return check.Result()
