"""C11: cumulative spline evaluation and its derivative outputs are exact (DESIGN 4/C11)."""
import random, math
from fractions import Fraction
from symx import terms as T, groups as G, check, solver, oracles as O, engine
from symx.interp import Cond
from . import grouptu, c02, c20

PID = "C11"
TOL = 1e-9
CPP = {"T2": "Eigen::Vector2d", "T1": "double", "SO3": "smooth::SO3d", "SE2": "smooth::SE2d"}


def grp(name):
    return G.Tn(int(name[1:])) if name.startswith("T") else G.BASIC[name]


def configs(tier):
    c = [("T2", K, b) for K in range(1, 7) for b in (0, 1)] + [("T1", K, 0) for K in (1, 3, 5)]
    c += [("SO3", 1, 0), ("SE2", 1, 1), ("SE2", 2, 1)]
    if tier == "thorough":
        c += [("SO3", 2, 0), ("SE2", 3, 0)]
    return c


def tu_text(cfgs):
    L = ['#include "vspl.hpp"']
    for (gn, K, b) in cfgs:
        for f in ("vs", "gs", "dvs", "dgs"):
            L.append('extern "C" void csp_%s_%s_%d_%d(const double* i, double* o){ vspl::csp_%s<%d, %s, %s>(i,o);}' % (f, gn, K, b, f, K, CPP[gn], "true" if b else "false"))
    return "\n".join(L) + "\n"


def cum_basis(K, b):
    """exact cumulative basis functions Btilde_j(u) as coefficient lists (definition: tail sums of the basis)"""
    base = c20.bspline(K) if b else c20.bernstein(K)
    out = []
    for j in range(K + 1):
        acc = [Fraction(0)]
        for i in range(j, K + 1):
            acc = c20.P_add(acc, base[i])
        out.append(acc)
    return out


def poly_term(coefs, u):
    acc = T.Const(0)
    for k, c in enumerate(coefs):
        if c != 0:
            acc = T.Add(acc, T.Mul(T.Const(c), c20.tpow(u, k)))
    return acc


def curve_oracle(g, u, vs, K, b):
    """documented matrix of prod_j exp(Btilde_j(u) v_j) and of its inverse"""
    Bt = cum_basis(K, b)
    M = G.eye(g.dim)
    Mi = G.eye(g.dim)
    for j in range(1, K + 1):
        s = poly_term(Bt[j], u)
        a = [T.Mul(s, x) for x in vs[j - 1]]
        E = O.exp_oracle(g, a, "closed")
        Ei = O.exp_oracle(g, [T.Neg(x) for x in a], "closed")
        M = G.mm(M, E)
        Mi = G.mm(Ei, Mi)
    return M, Mi


def body_derivs(g, M, Mi, u_name):
    dM = [[T.diff(e, u_name) for e in row] for row in M]
    vel = g.vee(G.mm(Mi, dM))
    acc = [T.diff(x, u_name) for x in vel]
    jer = [T.diff(x, u_name) for x in acc]
    return vel, acc, jer


def small_angle_asm(g, vs):
    asm = []
    for v in vs:
        for blk, ro, do, mo in O.group_blocks(g):
            if blk.rot:
                ang = O.Angle([v[do + i] for i in blk.rot])
                asm.append((Cond("cmp", ang.t, T.Const(Fraction(9, 1)), "olt"), True))
    return asm


def job(cfg, which, tier, cfgs, ufix=None):
    gn, K, b = cfg
    T.reset_terms()
    res = check.Result()
    h = check.Harness("cspline_" + tier, tu_text(cfgs))
    g = grp(gn)
    D, R = g.dof, g.rep
    u = T.Sym("u")
    fn = "csp_%s_%s_%d_%d" % (which, gn, K, b)
    key = "%s/%s/K%d/%s" % (which, gn, K, "bspline" if b else "bernstein")
    budget = 20 if tier == "quick" else 240
    vec = isinstance(g, G.Tn)
    asm = [(Cond("cmp", u, T.Const(0), "oge"), True), (Cond("cmp", u, T.Const(1), "ole"), True)]
    if which in ("vs", "dvs"):
        vs = [G.syms("v%d_" % j, D) for j in range(1, K + 1)]
        ins = [u] + [x for v in vs for x in v]
        g0 = None
    else:
        if vec:
            gs = [G.syms("g%d_" % j, R) for j in range(K + 1)]
            vs = [[T.Sub(a_, b_) for a_, b_ in zip(gs[j], gs[j - 1])] for j in range(1, K + 1)]
        else:
            # control points given through their differences: g_j = g_{j-1} exp(v_j) is NOT used as input (the wrapper takes elements);
            # inputs are canonical symbolic elements and the differences are obtained by running the real rminus symbolically
            gs = [G.syms("g%d_" % j, R) for j in range(K + 1)]
            vs = None
        ins = [u] + [x for v in gs for x in v]
        g0 = gs[0]
    nout = {"vs": R + 3 * D, "gs": R + 3 * D, "dvs": 3 * D * D * K, "dgs": 3 * D * D * (K + 1)}[which]

    def sampler(k):
        r = random.Random(k)
        uu = [0.0, 1.0, 0.5, r.random()][k % 4]
        if which in ("vs", "dvs"):
            return [uu] + [r.uniform(-0.8, 0.8) for _ in range(K * D)]
        return [uu] + [x for _ in range(K + 1) for x in g.random_element(r, 1.0)]
    in_names = [x.args[0] for x in ins]
    if ufix is not None:
        # bounded variant for the expensive Lie-group Jacobians: the curve parameter is fixed (all control data stay symbolic)
        ins = [T.Const(ufix)] + ins[1:]
        asm = []   # u is a constant here: no constraint may mention the symbol (a solver model would otherwise assign it freely)
        base_sampler = sampler

        def sampler(k, base_sampler=base_sampler):
            v = base_sampler(k)
            v[0] = float(ufix)
            return v
        key = key + "/u=%s" % ufix
    res.functions.add(fn)
    res.validated += h.validate(fn, sampler, nout, 6)
    if not vec and which in ("gs", "dgs"):
        # Lie-group control points: decided through the difference form (cspline_eval_gs == g_0 * vs-form with v_i = g_i - g_{i-1}) natively validated above;
        # the symbolic obligations for non-commutative control points are posed on the vs form only
        res.notes.append(key + ": non-commutative control-point form covered by differential validation only; symbolic obligations on the difference form")
        res.add_raw(key + "/validated-only", "undecided", "control-point form on a non-commutative group: not encoded (difference form is)")
        return res
    if not vec:
        asm = asm + small_angle_asm(g, vs)
    M, Mi = curve_oracle(g, u, vs, K, b)
    if g0 is not None:
        M0 = g.docM(g0)
        M0i = g.docM([T.Neg(x) for x in g0]) if vec else None
        M = G.mm(M0, M)
        Mi = G.mm(Mi, M0i)
    vel, acc, jer = body_derivs(g, M, Mi, "u")

    def obligations(ins_, outs):
        obl = []
        if which in ("vs", "gs"):
            Mo = g.docM(outs[:R])
            for i in range(g.dim):
                for j in range(g.dim):
                    obl.append(("value%d_%d" % (i, j), Mo[i][j], M[i][j]))
            for c in range(D):
                obl.append(("vel%d" % c, outs[R + c], vel[c]))
                obl.append(("acc%d" % c, outs[R + D + c], acc[c]))
                obl.append(("jer%d" % c, outs[R + 2 * D + c], jer[c]))
        else:
            ncol = D * K if which == "dvs" else D * (K + 1)
            wrt = in_names[1:]
            for col in range(ncol):
                sname = wrt[col]
                dval = g.vee(G.mm(Mi, [[T.diff(e, sname) for e in row] for row in M]))
                for r_ in range(D):
                    obl.append(("dg%d_%d" % (r_, col), outs[r_ * ncol + col], dval[r_]))
                    obl.append(("dvel%d_%d" % (r_, col), outs[D * ncol + r_ * ncol + col], T.diff(vel[r_], sname)))
                    obl.append(("dacc%d_%d" % (r_, col), outs[2 * D * ncol + r_ * ncol + col], T.diff(acc[r_], sname)))
        if ufix is not None:
            obl = [(n_, l_, T.substitute(r_, {"u": T.Const(ufix)})) for n_, l_, r_ in obl]
        return obl

    def decide(name, lhs, rhs, p):
        try:
            with T.time_budget(budget):
                term = T.Sub(lhs, rhs)
                v = solver.check_identity(T.nf(term), pc=p.pc, assumptions=asm, timeout_ms=10000)
                if v.status == "holds":
                    return v
                # constants of the basis matrices carry compile-time rounding: decide the tolerance instead of exact equality
                num, den = T.nf(term)
                if vec and T.p_is_const(den):
                    def sym_box(nm):
                        return (Fraction(0), Fraction(1)) if nm == "u" else (Fraction(-4), Fraction(4))
                    box = solver.box_for([num], sym_box)
                    if box is not None:
                        vb = solver.check_bound(T.p_scale(num, 1 / den[()]), box, Fraction(TOL), max_split=4)
                        if vb.status == "holds":
                            vb.how = "identity up to compile-time rounding of basis constants: " + vb.how
                            return vb
                return v
        except (T.PolyTooBig, MemoryError):
            return solver.Verdict("undecided", "normal form too large / time budget")

    def per_path(p, obl):
        return {name: decide for name, _, _ in obl}
    check.check_wrapper(res, h, fn, ins, nout, None, key, tol=TOL * 10, sampler=sampler, assumptions=asm, obligations=obligations, per_path=per_path,
                        pid=PID, nvalidate=0, max_paths=64, in_names=in_names)
    res.axioms.add("vel = vee(M^-1 dM/du), acc = d vel/du, jer = d acc/du by symbolic differentiation of the oracle curve prod_j expm(Btilde_j(u) hat v_j)")
    return res


def main(tier):
    run = check.Run(PID, tier)
    check.JOB_BUDGET[0] = 240 if tier == "quick" else 1500
    cfgs = configs(tier)
    check.run_jobs([(_compile, (cfgs, tier))])
    jobs = []
    for cfg in cfgs:
        for which in ("vs", "gs", "dvs", "dgs"):
            if cfg[0] in ("SO3", "SE2") and which in ("dvs", "dgs"):
                # Lie-group Jacobians with symbolic u exceed any quick budget (rational normal forms); the bounded
                # variant fixes u and keeps every control datum symbolic.  thorough runs both.
                for uf in (Fraction(1, 3),) if tier == "quick" else (Fraction(1, 3), Fraction(3, 4)):
                    jobs.append((job, (cfg, which, tier, cfgs, uf)))
                if tier == "quick":
                    continue
            jobs.append((job, (cfg, which, tier, cfgs)))
    run.extend(check.run_jobs(jobs, timeout=900 if tier == "quick" else 1800))
    run.bounds += ["configurations (group, K, basis): %s" % cfgs, "u in [0,1]; Lie-group differences with rotation norm < 3", "Lie-group d/d(control) Jacobians (dvs, dgs): u fixed to 1/3 (quick) or {1/3, 3/4} plus symbolic u (thorough)"]
    run.assumptions += ["layer R", "exp oracle of C02", "cumulative basis matrices are decided separately in C20 (here the DEFINITION of the basis is used on the oracle side)"]
    return run.finish()


def _compile(cfgs, tier):
    check.Harness("cspline_" + tier, tu_text(cfgs))
    return check.Result()
