"""C07: manifold axioms for every Manifold model (DESIGN 4/C07)."""
import random, math, itertools
from fractions import Fraction
from symx import terms as T, groups as G, check, solver, oracles as O, engine
from symx.interp import Cond
from . import grouptu, c02, c04

PID = "C07"
TOL = 1e-9

CPP = {"SO2": "smooth::SO2d", "SO3": "smooth::SO3d", "SE2": "smooth::SE2d", "SE3": "smooth::SE3d", "C1": "smooth::C1d", "Galilei": "smooth::Galileid",
       "T3": "Eigen::Vector3d", "T2": "Eigen::Vector2d"}


def man_tu(names):
    lines = ['#include "vm.hpp"']
    for n in names:
        for f in ("rpm", "rmp", "rself"):
            lines.append('extern "C" void %s_%s(const double* i, double* o){ vm::%s<%s>(i,o);}' % (n, f, f, CPP[n]))
    return "\n".join(lines) + "\n"


def group_of(name):
    if name.startswith("T"):
        return G.Tn(int(name[1:]))
    return G.BASIC[name]


def job_axioms(names, name, which, tier):
    T.reset_terms()
    res = check.Result()
    h = check.Harness("man_axioms", man_tu(names))
    g = group_of(name)
    key = "axioms/%s/%s" % (name, which)
    fn = "%s_%s" % (name, which)
    budget = 20 if tier == "quick" else 240
    if which == "rpm":
        m, asm = c02.element_terms(g)
        a = G.syms("a", g.dof)
        asm = asm + c02.declare_small_angle(g, a)
        ins, expect, nout = m + a, a, g.dof
    elif which == "rmp":
        m, asm = c02.element_terms(g)
        # second element with distinct symbol names
        m2, asm2 = element_terms2(g, "h")
        asm = asm + asm2
        ins, expect, nout = m + m2, m2, g.rep
    else:
        m, asm = c02.element_terms(g)
        ins, expect, nout = m, [T.Const(0)] * g.dof, g.dof
    pi_t = T.Sym("pi!")
    asm = asm + [(Cond("cmp", pi_t, T.Const(solver.PI_LO), "ogt"), True), (Cond("cmp", pi_t, T.Const(solver.PI_HI), "olt"), True)]

    def sampler(k):
        r = random.Random(k)
        if which == "rpm":
            a_ = c02.tangent_sampler(g)(k)
            for blk, ro, do, mo in O.group_blocks(g):
                if blk.rot:
                    nn = math.sqrt(sum(a_[do + i] ** 2 for i in blk.rot))
                    if nn >= 3.1:
                        for i in blk.rot:
                            a_[do + i] *= 3.0 / nn
            return g.random_element(r, 3.0) + a_
        if which == "rmp":
            return g.random_element(r, 3.0) + g.random_element(r, 3.0)
        return g.random_element(r, 3.0)
    res.functions.add(fn)
    res.validated += h.validate(fn, sampler, nout, 6)
    ex = engine.Explorer(h.mod, assumptions=asm, max_paths=96)
    paths = ex.explore(fn, ins, nout)
    res.note_paths(paths, ex)
    if ex.truncated:
        res.notes.append(key + ": path budget exhausted (remaining paths not explored)")
    nok = 0
    for pi, p in enumerate(paths):
        pk = "%s/path%d" % (key, pi)
        if p.status != "ok":
            res.add_raw(pk, "undecided", "%s: %s" % (p.status, p.reason))
            continue
        nok += 1
        for k in range(nout):
            name_k = "%s/out%d" % (pk, k)
            try:
                with T.time_budget(budget):
                    term = T.Sub(p.outs[k], expect[k])
                    v = solver.check_identity(T.nf(term), pc=p.pc, assumptions=asm, timeout_ms=10000)
                    if v.status != "holds" and which == "rpm":
                        reg = c02.regimes(g, ins[g.rep:], p.pc, asm)
                        if any(r[0] == "series" for r in reg.values()):
                            v = c02.series_roundtrip(term, g, ins[g.rep:], reg, res)
            except (T.PolyTooBig, MemoryError):
                v = solver.Verdict("undecided", "normal form too large / time budget")
            if v.status == "violated":
                w = axiom_witness(h, fn, which, g, sampler, k)
                if w:
                    res.add(name_k, v)
                    res.violations.append({"key": key, "what": w["what"], "replay": w})
                    continue
                v.status = "undecided"
                v.how += " ; not reproduced natively"
            res.add(name_k, v)
    if not nok:
        res.errors.append(key + ": vacuous")
    res.axioms.update(set(T.CTX.log))
    return res


def element_terms2(g, pref):
    """second canonical element with its own symbols"""
    gs, asm = c02.element_terms(g)
    ren = {}
    for x in gs:
        for s_ in T.symbols_of(x):
            if s_ != "pi!":
                ren[s_] = T.Sym(pref + s_)
    # principal declarations for renamed angles
    out = [T.substitute(x, ren) for x in gs]
    for s_, t_ in ren.items():
        if s_.startswith("phi"):
            T.CTX.principal.add(T.rf_key(T.nf(t_)))
    asm2 = [(Cond(c.kind, T.substitute(c.a, ren), T.substitute(c.b, ren), c.pred), pol) for c, pol in asm]
    return out, asm2


def axiom_witness(h, fn, which, g, sampler, k, ntry=40):
    for j in range(ntry):
        inp = sampler(j + 500)
        out = h.native(fn, inp, g.dof if which != "rmp" else g.rep)
        if which == "rpm":
            exp_ = inp[g.rep:]
        elif which == "rmp":
            exp_ = inp[g.rep:]
        else:
            exp_ = [0.0] * g.dof
        sc = max([1.0] + [abs(x) for x in exp_])
        # quaternion double cover: compare up to the canonical sign only for rmp (m2 canonical already)
        e = abs(out[k] - exp_[k]) / sc
        if not (e <= TOL * 10):
            return {"property": PID, "key": "axioms/%s" % fn, "tu_name": h.name, "tu_text": h.text, "fn": fn, "inputs": inp, "nout": len(out), "native": out,
                    "err": e, "tol": TOL * 10, "what": "%s: output %d is %r, expected %r (input %r)" % (fn, k, out[k], exp_[k], inp)}
    return None


# ------------------------------------------------------------------------------------------------ containers
CONT_TU = r'''
#include "vm.hpp"
using SO3 = smooth::SO3d; using SE2 = smooth::SE2d; using V2 = Eigen::Vector2d; using VX = Eigen::VectorXd;
extern "C" void vec_so3_0(const double* i, double* o){ vm::vec_ops<SO3,0,0>(i,o);}
extern "C" void vec_so3_1(const double* i, double* o){ vm::vec_ops<SO3,1,0>(i,o);}
extern "C" void vec_so3_3(const double* i, double* o){ vm::vec_ops<SO3,3,0>(i,o);}
extern "C" void vec_se2_2(const double* i, double* o){ vm::vec_ops<SE2,2,0>(i,o);}
extern "C" void vec_vx_2(const double* i, double* o){ vm::vec_ops<VX,2,3>(i,o);}
extern "C" void vec_vx_0(const double* i, double* o){ vm::vec_ops<VX,0,3>(i,o);}
extern "C" void vec_mixed(const double* i, double* o){ vm::vec_mixed(i,o);}
extern "C" void var_0(const double* i, double* o){ vm::var_ops<0>(i,o);}
extern "C" void var_1(const double* i, double* o){ vm::var_ops<1>(i,o);}
extern "C" void var_2(const double* i, double* o){ vm::var_ops<2>(i,o);}
extern "C" void any_so3(const double* i, double* o){ vm::any_ops<SO3>(i,o);}
extern "C" void any_se2(const double* i, double* o){ vm::any_ops<SE2>(i,o);}
extern "C" void any_v2(const double* i, double* o){ vm::any_ops<V2>(i,o);}
extern "C" void any_dyn_vx(const double* i, double* o){ vm::any_dyn_vx(i,o);}
extern "C" void any_dyn_vec(const double* i, double* o){ vm::any_dyn_vec(i,o);}
'''


def sub_tu(masks_so3, masks_se2, masks_v3):
    lines = ['#include "vm.hpp"']
    for mk in masks_so3:
        lines.append('extern "C" void sub_SO3_%d(const double* i, double* o){ vm::sub_ops<smooth::SO3d,%du>(i,o);}' % (mk, mk))
    for mk in masks_se2:
        lines.append('extern "C" void sub_SE2_%d(const double* i, double* o){ vm::sub_ops<smooth::SE2d,%du>(i,o);}' % (mk, mk))
    for mk in masks_v3:
        lines.append('extern "C" void sub_T3_%d(const double* i, double* o){ vm::sub_ops<Eigen::Vector3d,%du>(i,o);}' % (mk, mk))
    return "\n".join(lines) + "\n"


def part_ops(g, res, asm):
    """symbolic rplus / rminus of one element through the group's own wrappers: returns callables giving list of (pc, outs)"""
    if isinstance(g, G.Tn):
        return (lambda m, a: [([], [T.Add(x, y) for x, y in zip(m, a)])]), (lambda m1, m2: [([], [T.Sub(x, y) for x, y in zip(m1, m2)])])
    hp = grouptu.harness(g)
    t = grouptu.tag(g)

    def rplus(m, a):
        ex = engine.Explorer(hp.mod, assumptions=asm, max_paths=64)
        qs = ex.explore(t + "_rplus", list(m) + list(a), g.rep)
        res.note_paths(qs, ex)
        return [(q.pc, q.outs) for q in qs if q.status == "ok"]

    def rminus(m1, m2):
        ex = engine.Explorer(hp.mod, assumptions=asm, max_paths=64)
        qs = ex.explore(t + "_rminus", list(m1) + list(m2), g.dof)
        res.note_paths(qs, ex)
        return [(q.pc, q.outs) for q in qs if q.status == "ok"]
    return rplus, rminus


def compare(res, key, bp, idx_terms, alts_list, asm, feas):
    """bundle-style comparison: output entries idx_terms[(index)] against alternatives [(pc, term)] consistent with the path"""
    for idx, alts in alts_list.items():
        ok_alts = []
        for qpc, term in alts:
            if all(feas(bp.pc, c, pol) is not False for c, pol in qpc):
                ok_alts.append((qpc, term))
        v = None
        if not ok_alts:
            v = solver.Verdict("undecided", "no consistent element path")
        for qpc, term in ok_alts:
            v = solver.check_identity(T.nf(T.Sub(bp.outs[idx], term)), pc=bp.pc + qpc, assumptions=asm)
            if v.status != "holds":
                break
        name = "%s/out%d" % (key, idx)
        if v.status == "holds":
            res.add(name, v)
        elif v.status == "violated":
            res.add(name, v)
            res.violations.append({"key": key.split("/path")[0], "what": "%s output %d differs from the element-wise operation: %s" % (key, idx, v.detail[:200])})
        else:
            res.add_raw(name, "undecided", v.how, v.dt)


def job_vector(fn, gname, N, esz, tier):
    """std::vector<M> of N elements: dof, rplus, rminus act element-wise on consecutive tangent segments"""
    T.reset_terms()
    res = check.Result()
    h = check.Harness("man_containers", CONT_TU)
    g = group_of(gname) if gname != "VX" else G.Tn(esz)
    R, D = g.rep, g.dof
    key = "vector/%s" % fn
    m = [G.syms("m%d_" % i, R) for i in range(N)]
    m2 = [G.syms("n%d_" % i, R) for i in range(N)]
    a = G.syms("a", N * D)
    ins = [x for v in m for x in v] + [x for v in m2 for x in v] + a
    nout = 1 + N * R + N * D
    asm = []

    def sampler(k):
        r = random.Random(k)
        return [x for _ in range(2 * N) for x in g.random_element(r, 2.0)] + [r.uniform(-1, 1) for _ in range(N * D)]
    res.functions.add(fn)
    res.validated += h.validate(fn, sampler, nout, 5)
    ex = engine.Explorer(h.mod, assumptions=asm, max_paths=256)
    paths = ex.explore(fn, ins, nout)
    res.note_paths(paths, ex)
    rp, rm = part_ops(g, res, asm)
    alts = {0: [([], T.Const(N * D))]}
    for i in range(N):
        for qpc, outs in rp(m[i], a[i * D:(i + 1) * D]):
            for j in range(R):
                alts.setdefault(1 + i * R + j, []).append((qpc, outs[j]))
        for qpc, outs in rm(m[i], m2[i]):
            for j in range(D):
                alts.setdefault(1 + N * R + i * D + j, []).append((qpc, outs[j]))
    feas = solver.Feasibility(asm, 2000)
    nok = 0
    for pi, bp in enumerate(paths):
        if bp.status != "ok":
            res.add_raw("%s/path%d" % (key, pi), "undecided", "%s: %s" % (bp.status, bp.reason))
            continue
        nok += 1
        compare(res, "%s/path%d" % (key, pi), bp, None, alts, asm, feas)
    if not nok:
        res.errors.append(key + ": vacuous")
    return res


def job_vector_mixed(tier):
    """std::vector<VectorXd> with element sizes (3,1,2): element i uses the tangent segment starting at the SUM of the preceding dofs"""
    T.reset_terms()
    res = check.Result()
    h = check.Harness("man_containers", CONT_TU)
    m, n, a = G.syms("m", 6), G.syms("n", 6), G.syms("a", 6)

    def oracle(ins, outs=None):
        return [T.Const(6)] + [T.Add(m[k], a[k]) for k in range(6)] + [T.Sub(m[k], n[k]) for k in range(6)]
    check.check_wrapper(res, h, "vec_mixed", m + n + a, 13, oracle, "vector/mixed-dynamic-sizes(3,1,2)", tol=1e-12, pid=PID,
                        sampler=lambda k: [random.Random(k * 7 + i).uniform(-2, 2) for i in range(18)], nvalidate=4)
    return res


def job_any_dynamic(tier):
    """AnyManifold around values whose dof is a run-time quantity: dof(any) is the tangent length rplus accepts and rminus returns"""
    T.reset_terms()
    res = check.Result()
    h = check.Harness("man_containers", CONT_TU)
    v, w, a = G.syms("v", 3), G.syms("w", 3), G.syms("a", 3)

    def oracle(ins, outs=None):
        return [T.Const(3), T.Const(3)] + [T.Add(v[k], a[k]) for k in range(3)] + [T.Const(3)] + [T.Sub(v[k], w[k]) for k in range(3)]
    check.check_wrapper(res, h, "any_dyn_vx", v + w + a, 9, oracle, "any/VectorXd(3)", tol=1e-12, pid=PID,
                        sampler=lambda k: [random.Random(k * 11 + i).uniform(-2, 2) for i in range(9)], nvalidate=4)
    g = G.BASIC["SO3"]
    m = G.syms("m", 8)
    check.check_wrapper(res, h, "any_dyn_vec", m, 3, lambda ins, outs=None: [T.Const(6), T.Const(6), T.Const(6)], "any/std::vector<SO3>(2)", tol=1e-12, pid=PID,
                        sampler=lambda k: g.random_element(random.Random(k), 1.0) + g.random_element(random.Random(k + 50), 1.0), nvalidate=4)
    return res


def job_variant(alt, tier):
    T.reset_terms()
    res = check.Result()
    h = check.Harness("man_containers", CONT_TU)
    g = [G.BASIC["SO3"], G.Tn(2), G.Tn(1)][alt]
    R, D = g.rep, g.dof
    fn = "var_%d" % alt
    key = "variant/alt%d" % alt
    m, m2, a = G.syms("m", R), G.syms("n", R), G.syms("a", D)
    nout = 2 + R + D
    asm = []

    def sampler(k):
        r = random.Random(k)
        return g.random_element(r, 2.0) + g.random_element(r, 2.0) + [r.uniform(-1, 1) for _ in range(D)]
    res.functions.add(fn)
    res.validated += h.validate(fn, sampler, nout, 5)
    ex = engine.Explorer(h.mod, assumptions=asm)
    paths = ex.explore(fn, m + m2 + a, nout)
    res.note_paths(paths, ex)
    rp, rm = part_ops(g, res, asm)
    alts = {0: [([], T.Const(D))], 1: [([], T.Const(alt))]}
    for qpc, outs in rp(m, a):
        for j in range(R):
            alts.setdefault(2 + j, []).append((qpc, outs[j]))
    for qpc, outs in rm(m, m2):
        for j in range(D):
            alts.setdefault(2 + R + j, []).append((qpc, outs[j]))
    feas = solver.Feasibility(asm, 2000)
    for pi, bp in enumerate(paths):
        if bp.status != "ok":
            res.add_raw("%s/path%d" % (key, pi), "undecided", "%s: %s" % (bp.status, bp.reason))
            continue
        compare(res, "%s/path%d" % (key, pi), bp, None, alts, asm, feas)
    return res


def job_any(fn, gname, tier):
    T.reset_terms()
    res = check.Result()
    h = check.Harness("man_containers", CONT_TU)
    g = group_of(gname)
    R, D = g.rep, g.dof
    key = "any/%s" % gname
    m, m2, a = G.syms("m", R), G.syms("n", R), G.syms("a", D)
    nout = 1 + R + D + R
    asm = []

    def sampler(k):
        r = random.Random(k)
        return g.random_element(r, 2.0) + g.random_element(r, 2.0) + [r.uniform(-1, 1) for _ in range(D)]
    res.functions.add(fn)
    res.validated += h.validate(fn, sampler, nout, 5)
    ex = engine.Explorer(h.mod, assumptions=asm)
    paths = ex.explore(fn, m + m2 + a, nout)
    res.note_paths(paths, ex)
    rp, rm = part_ops(g, res, asm)
    alts = {0: [([], T.Const(D))]}
    for qpc, outs in rp(m, a):
        for j in range(R):
            alts.setdefault(1 + j, []).append((qpc, outs[j]))
    for qpc, outs in rm(m, m2):
        for j in range(D):
            alts.setdefault(1 + R + j, []).append((qpc, outs[j]))
    for j in range(R):  # the clone taken before the original was reassigned still holds the original value
        alts[1 + R + D + j] = [([], m[j])]
    feas = solver.Feasibility(asm, 2000)
    for pi, bp in enumerate(paths):
        if bp.status != "ok":
            res.add_raw("%s/path%d" % (key, pi), "undecided", "%s: %s" % (bp.status, bp.reason))
            continue
        compare(res, "%s/path%d" % (key, pi), bp, None, alts, asm, feas)
    return res


def job_sub(gname, mask, tu, tier):
    """SubManifold<M> with the fixed dimensions given by mask"""
    T.reset_terms()
    res = check.Result()
    h = check.Harness("man_sub", tu)
    g = group_of(gname)
    R, D = g.rep, g.dof
    fixed = [i for i in range(D) if (mask >> i) & 1]
    free = [i for i in range(D) if i not in fixed]
    fn = "sub_%s_%d" % (gname, mask)
    key = "submanifold/%s/fixed%s" % (gname, "".join(map(str, fixed)) or "-")
    m0, m, m2 = G.syms("o", R), G.syms("m", R), G.syms("n", R)
    a = G.syms("a", len(free))
    nout = 1 + 2 * R + len(free) + 2 * R + 2 * R
    asm = []

    def sampler(k):
        r = random.Random(k)
        return g.random_element(r, 2.0) + g.random_element(r, 2.0) + g.random_element(r, 2.0) + [r.uniform(-1, 1) for _ in range(len(free))]
    res.functions.add(fn)
    res.validated += h.validate(fn, sampler, nout, 5)
    ex = engine.Explorer(h.mod, assumptions=asm, max_paths=128)
    paths = ex.explore(fn, m0 + m + m2 + a, nout)
    res.note_paths(paths, ex)
    rp, rm = part_ops(g, res, asm)
    afull = [T.Const(0)] * D
    for j, i in enumerate(free):
        afull[i] = a[j]
    alts = {0: [([], T.Const(len(free)))]}
    o = 1
    for j in range(R):
        alts[o + j] = [([], m0[j])]  # origin kept
    o += R
    for qpc, outs in rp(m, afull):  # moves only along the free directions
        for j in range(R):
            alts.setdefault(o + j, []).append((qpc, outs[j]))
    o += R
    for qpc, outs in rm(m, m2):  # differences only in the free directions
        for j, i in enumerate(free):
            alts.setdefault(o + j, []).append((qpc, outs[i]))
    o += len(free)
    for j in range(R):  # cast<double> is field-wise the identity
        alts[o + j] = [([], m0[j])]
        alts[o + R + j] = [([], m[j])]
    o += 2 * R
    for j in range(R):  # copy independent of later mutation of the original
        alts[o + j] = [([], m0[j])]
        alts[o + R + j] = [([], m[j])]
    feas = solver.Feasibility(asm, 2000)
    nok = 0
    for pi, bp in enumerate(paths):
        if bp.status != "ok":
            res.add_raw("%s/path%d" % (key, pi), "undecided", "%s: %s" % (bp.status, bp.reason))
            continue
        nok += 1
        before = len(res.violations)
        compare(res, "%s/path%d" % (key, pi), bp, None, alts, asm, feas)
        for v in res.violations[before:]:
            idx = int(v["what"].split(" output ")[1].split(" ")[0])
            seg = "cast" if 1 + 2 * R + len(free) <= idx < 1 + 4 * R + len(free) else "other"
            v["key"] = "submanifold/%s/%s" % (gname, seg)
            v["what"] = ("SubManifold<%s> %s: " % (gname, "cast<double>() is not field-wise the identity (m() and m0() differ from the original)" if seg == "cast" else "operation")) + v["what"]
    if not nok:
        res.errors.append(key + ": vacuous")
    return res


def main(tier):
    run = check.Run(PID, tier)
    check.JOB_BUDGET[0] = 240 if tier == 'quick' else 1500
    names = ["SO2", "SO3", "SE2", "C1", "T3"] + (["SE3", "Galilei"] if tier == "thorough" else [])
    jobs = []
    for n in names:
        for which in ("rpm", "rmp", "rself"):
            jobs.append((job_axioms, (names, n, which, tier)))
    masks3 = list(range(8))
    tu = sub_tu(masks3, masks3, masks3)
    # compile all TUs first
    check.run_jobs([(_compile_text, ("man_axioms", man_tu(names))), (_compile_text, ("man_containers", CONT_TU)), (_compile_text, ("man_sub", tu)),
                    (_compile_group, (G.BASIC["SO3"],)), (_compile_group, (G.BASIC["SE2"],))])
    for fn, gname, N, esz in [("vec_so3_0", "SO3", 0, 0), ("vec_so3_1", "SO3", 1, 0), ("vec_so3_3", "SO3", 3, 0), ("vec_se2_2", "SE2", 2, 0),
                              ("vec_vx_2", "VX", 2, 3), ("vec_vx_0", "VX", 0, 3)]:
        jobs.append((job_vector, (fn, gname, N, esz, tier)))
    jobs.append((job_vector_mixed, (tier,)))
    jobs.append((job_any_dynamic, (tier,)))
    for alt in range(3):
        jobs.append((job_variant, (alt, tier)))
    for fn, gname in [("any_so3", "SO3"), ("any_se2", "SE2"), ("any_v2", "T2")]:
        jobs.append((job_any, (fn, gname, tier)))
    for gname in ("SO3", "SE2", "T3"):
        for mask in masks3:
            jobs.append((job_sub, (gname, mask, tu, tier)))
    run.extend(check.run_jobs(jobs, timeout=900 if tier == "quick" else 1800))
    run.bounds += ["axioms on: " + ", ".join(names), "std::vector sizes 0,1,2,3; variant alternatives SO3, Vector2d, double; AnyManifold of SO3, SE2, Vector2d",
                   "SubManifold<SO3|SE2|Vector3d>: all 8 subsets of fixed dimensions"]
    run.assumptions += ["layer R", "rotation parts below pi; canonical elements", "AnyManifold Default/cast are documented to throw and are outside the claim"]
    return run.finish()


def _compile_text(name, text):
    check.Harness(name, text)
    return check.Result()


def _compile_group(g):
    grouptu.harness(g)
    return check.Result()
