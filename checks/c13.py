"""C13: BSpline is a C^(K-1), local, left-equivariant curve (DESIGN 4/C13) -- decided on vector-space groups against Cox-de Boor."""
import random
from fractions import Fraction
from symx import terms as T, groups as G, check, solver, engine
from symx.interp import Cond
from . import c20, c11, c12

PID = "C13"
CPP = {"T1": "double", "T2": "Eigen::Vector2d"}


def configs(tier):
    c = [("T1", K, K + 1 + e) for K in (1, 2, 3) for e in (0, 2)] + [("T2", 3, 5)]
    if tier == "thorough":
        c += [("T1", K, K + 1 + e) for K in (4, 5, 6) for e in (0, 3)] + [("T1", 3, 7)]
    return c


def tu_text(cfgs):
    L = ['#include "vspl.hpp"']
    for gn, K, N in cfgs:
        L.append('extern "C" void bsp_%s_%d_%d(const double* i, double* o){ vspl::bsp_eval<%d,%s,%d>(i,o);}' % (gn, K, N, K, CPP[gn], N))
    return "\n".join(L) + "\n"


def job(cfg, cfgs, tier):
    gn, K, N = cfg
    T.reset_terms()
    res = check.Result()
    h = check.Harness("bspline_" + tier, tu_text(cfgs))
    D = int(gn[1:])
    t0, dt, t = T.Sym("t0"), T.Sym("dt"), T.Sym("t")
    cp = [G.syms("c%d_" % j, D) for j in range(N)]
    ins = [t0, dt] + [x for c in cp for x in c] + [t]
    fn = "bsp_%s_%d_%d" % (gn, K, N)
    key = "BSpline/%s/K%d/N%d" % (gn, K, N)
    nint = N - K
    tmax = T.Add(t0, T.Mul(T.Const(nint), dt))
    asm = [(Cond("cmp", dt, T.Const(0), "ogt"), True), (Cond("cmp", t, T.Sub(t0, T.Mul(T.Const(2), dt)), "oge"), True),
           (Cond("cmp", t, T.Add(tmax, T.Mul(T.Const(2), dt)), "ole"), True)]
    basis = c20.bspline(K)

    def piece(i, order=0):
        u = T.Div(T.Sub(T.Sub(t, t0), T.Mul(T.Const(i), dt)), dt)
        out = []
        for c in range(D):
            acc = T.Const(0)
            for j in range(K + 1):
                coefs = basis[j]
                for _ in range(order):
                    coefs = [k * coefs[k] for k in range(1, len(coefs))] or [Fraction(0)]
                acc = T.Add(acc, T.Mul(c11.poly_term(coefs, u), cp[i + j][c]))
            sc = T.Const(1)
            for _ in range(order):
                sc = T.Div(sc, dt)
            out.append(T.Mul(sc, acc))
        return out

    def at_param(i, uval):
        out = []
        for c in range(D):
            acc = T.Const(0)
            for j in range(K + 1):
                acc = T.Add(acc, T.Mul(T.Const(sum(basis[j][k] * uval ** k for k in range(len(basis[j])))), cp[i + j][c]))
            out.append(acc)
        return out

    def sym_sampler(k):
        r = random.Random(k)
        env = {"t0": r.choice([0.0, -1.5, 2.0]), "dt": r.choice([0.5, 1.0, 2.0])}
        for c in cp:
            for x in c:
                env[x.args[0]] = r.uniform(-1, 1)
        i = r.randrange(0, nint)
        env["t"] = [env["t0"] + (i + r.random()) * env["dt"], env["t0"] + i * env["dt"], env["t0"] - 0.7 * env["dt"], env["t0"] + (nint + 0.5) * env["dt"], env["t0"] + nint * env["dt"]][k % 5]
        return env
    res.functions.add(fn)
    res.validated += h.validate(fn, lambda k: [sym_sampler(k)[x.args[0]] for x in ins], 3 * D + 2, 8)

    def obligations(ins_, o):
        obl = []
        for i in range(nint):
            lo = T.Add(t0, T.Mul(T.Const(i), dt))
            hi = T.Add(t0, T.Mul(T.Const(i + 1), dt))
            guard = [(Cond("cmp", t, lo, "oge"), True), (Cond("cmp", t, hi, "olt"), True)]
            val, vel, acc = piece(i, 0), piece(i, 1), piece(i, 2)
            for c in range(D):
                obl.append(("interval%d/value%d" % (i, c), o[c], val[c], guard))
                obl.append(("interval%d/vel%d" % (i, c), o[D + c], vel[c], guard))
                obl.append(("interval%d/acc%d" % (i, c), o[2 * D + c], acc[c], guard))
        before = [(Cond("cmp", t, t0, "olt"), True)]
        after = [(Cond("cmp", t, tmax, "ogt"), True)]
        v0, v1 = at_param(0, 0), at_param(nint - 1, 1)
        for c in range(D):
            obl.append(("before/value%d" % c, o[c], v0[c], before))
            obl.append(("after/value%d" % c, o[c], v1[c], after))
        obl.append(("t_min", o[3 * D], t0))
        obl.append(("t_max", o[3 * D + 1], tmax))
        return obl
    def sym_box(nm):
        if nm == "dt":
            return (Fraction(1, 2), Fraction(2))
        if nm == "t":
            return (Fraction(-5), Fraction(13))
        if nm == "t0":
            return (Fraction(-1), Fraction(1))
        return (Fraction(-2), Fraction(2))
    c12.wrapper_check(res, h, fn, ins, 3 * D + 2, key, obligations, asm, sym_sampler, max_paths=200, tol=1e-7, sym_box=sym_box)
    res.bounds.add("tolerance fallback box (rounding of basis constants only): dt in [1/2,2], t0 in [-1,1], control points in [-2,2], t in [-5,13]")
    res.axioms.add("uniform B-spline segment basis from the Cox-de Boor recursion on integer knots; C^(K-1) continuity, local support and constant reproduction are corollaries")
    return res


def main(tier):
    run = check.Run(PID, tier)
    check.JOB_BUDGET[0] = 300 if tier == "quick" else 1500
    cfgs = configs(tier)
    check.run_jobs([(_compile, (cfgs, tier))])
    run.extend(check.run_jobs([(job, (c, cfgs, tier)) for c in cfgs], timeout=1200))
    run.bounds += ["(group, K, N control points): %s" % cfgs, "t in [t0-2dt, t_max+2dt], dt>0, all symbolic"]
    run.assumptions += ["layer R", "values outside [t_min,t_max]: only the value is claimed (end value); left-equivariance on non-commutative groups not encoded",
                        "casts of out-of-range/NaN times outside (UB of the conversion)"]
    return run.finish()


def _compile(cfgs, tier):
    check.Harness("bspline_" + tier, tu_text(cfgs))
    return check.Result()
