"""C16: Map views are interchangeable with values and write only their own memory (DESIGN 4/C16).

Structural: symx knows the exact write set of every path for every input.  The viewed region sits inside a larger
caller buffer (guard scalars on both sides, also at an odd scalar offset); obligations: writes subset of the viewed
range, const views never written, results through a Map are the SAME term DAG as through a value."""
import random
from symx import terms as T, groups as G, check, solver, engine, interp
from . import grouptu

PID = "C16"
PAD = 3

SUBPARTS = {
    # group -> list of (accessor expression on Map<G> o, C++ type of value assigned, [lo, hi) scalar range written, nvals)
    "SE2": [("o.so2()", "smooth::SO2d", 2, 4), ("o.r2()", "Eigen::Vector2d", 0, 2)],
    "SE3": [("o.so3()", "smooth::SO3d", 3, 7), ("o.r3()", "Eigen::Vector3d", 0, 3)],
    "Galilei": [("o.so3()", "smooth::SO3d", 7, 11), ("o.r3_v()", "Eigen::Vector3d", 0, 3), ("o.r3_p()", "Eigen::Vector3d", 3, 6), ("o.r1_t()", "Eigen::Matrix<double,1,1>", 6, 7)],
    "SE_2_3": [("o.so3()", "smooth::SO3d", 6, 10), ("o.template r3<0>()", "Eigen::Vector3d", 0, 3), ("o.template r3<1>()", "Eigen::Vector3d", 3, 6),
               ("o.r3(0)", "Eigen::Vector3d", 0, 3), ("o.r3(1)", "Eigen::Vector3d", 3, 6)],
    "SE_1_3": [("o.so3()", "smooth::SO3d", 3, 7), ("o.r3(0)", "Eigen::Vector3d", 0, 3)],
}
BUNDLE = ("smooth::Bundle<smooth::SO3d, Eigen::Vector3d, smooth::SE2d>", [("o.template part<0>()", "smooth::SO3d", 0, 4), ("o.template part<1>()", "Eigen::Vector3d", 4, 7),
                                                                            ("o.template part<2>()", "smooth::SE2d", 7, 11)], 11)

OPS = ["assign", "from_value", "to_value", "mul_inplace", "plus_inplace", "set_identity", "mul_map", "mul_value", "inv_map", "inv_value",
       "log_map", "log_value", "Ad_map", "Ad_value", "selfmul", "assign_fwd", "assign_bwd", "assign_fwd2", "assign_bwd2"]


def tu_text(g):
    t = grouptu.tag(g)
    cpp = grouptu.cpp_type(g)
    lines = ['#include "vmap.hpp"', "using G = %s;" % cpp]
    for op in OPS:
        lines.append('extern "C" void %s_%s(const double* in, double* out) { vmap::%s<G>(in, out); }' % (t, op, op))
    lines.append('extern "C" void %s_castf(const double* in, float* out) { vmap::cast_to<G, float>(in, out); }' % t)
    for k, (acc, ty, lo, hi) in enumerate(SUBPARTS.get(g.name, [])):
        n = hi - lo
        if "Eigen::" in ty:
            lines.append('extern "C" void %s_sub%d(const double* in, double* out) { smooth::Map<G> o(out); Eigen::Map<const %s> v(in); %s = v; }' % (t, k, ty, acc))
        else:
            lines.append('extern "C" void %s_sub%d(const double* in, double* out) { smooth::Map<G> o(out); smooth::Map<const %s> v(in); %s = v; }' % (t, k, ty, acc))
            # sub-part view assigned from a view of the SAME buffer that starts one scalar after the sub-part (partial overlap)
            lines.append('extern "C" void %s_subov%d(const double* in, double* out) { for (int i = 0; i < G::RepSize + 1; ++i) out[i] = in[i]; smooth::Map<G> o(out); '
                         'smooth::Map<const %s> v(out + %d); %s = v; }' % (t, k, ty, lo + 1, acc))
    return "\n".join(lines) + "\n"


def bundle_tu():
    cpp, parts, rep = BUNDLE
    lines = ['#include "vmap.hpp"', "using G = %s;" % cpp]
    for k, (acc, ty, lo, hi) in enumerate(parts):
        if "Eigen::" in ty:
            lines.append('extern "C" void bpart%d(const double* in, double* out) { smooth::Map<G> o(out); Eigen::Map<const %s> v(in); %s = v; }' % (k, ty, acc))
        else:
            lines.append('extern "C" void bpart%d(const double* in, double* out) { smooth::Map<G> o(out); smooth::Map<const %s> v(in); %s = v; }' % (k, ty, acc))
    return "\n".join(lines) + "\n"


def footprint(res, key, paths, lo, hi, out_pad, in_words):
    """writes to the caller's output buffer within [lo,hi) scalars of the view; input buffer never written"""
    ok = True
    for pi, p in enumerate(paths):
        if p.status == "memerror":
            res.add_raw("%s/path%d/memory" % (key, pi), "violated", p.reason)
            res.violations.append({"key": key + "/memory", "what": "%s: %s" % (key, p.reason)})
            ok = False
            continue
        if p.status != "ok":
            res.add_raw("%s/path%d" % (key, pi), "undecided", "%s: %s" % (p.status, p.reason))
            continue
        w_out = p.writes.get(p.extra["out_obj"], set())
        w_in = p.writes.get(p.extra["in_obj"], set())
        bad = [(o, s) for (o, s) in w_out if o < 8 * (out_pad + lo) or o + s > 8 * (out_pad + hi)]
        name = "%s/path%d/writes-within-view" % (key, pi)
        if bad:
            res.add_raw(name, "violated", "write-set %s outside [%d,%d)" % (sorted(bad)[:4], 8 * (out_pad + lo), 8 * (out_pad + hi)))
            res.violations.append({"key": key + "/footprint", "what": "%s writes outside its viewed range: byte ranges %s" % (key, sorted(bad)[:4])})
            ok = False
        else:
            res.add_raw(name, "holds", "interpreter write-set (exact, all inputs of this path): %d stores inside the view" % len(w_out))
        name = "%s/path%d/const-input-untouched" % (key, pi)
        if w_in:
            res.add_raw(name, "violated", "const view written: %s" % sorted(w_in)[:4])
            res.violations.append({"key": key + "/constwrite", "what": "%s writes through a const view: %s" % (key, sorted(w_in)[:4])})
            ok = False
        else:
            res.add_raw(name, "holds", "interpreter write-set: no store to the input buffer")
    return ok


def job(g, tier):
    T.reset_terms()
    res = check.Result()
    h = check.Harness("map_" + grouptu.tag(g), tu_text(g))
    t = grouptu.tag(g)
    R, D = g.rep, g.dof
    ins = G.syms("g", R) + G.syms("h", R) + G.syms("a", D)

    def sampler(k):
        r = random.Random(k)
        return g.random_element(r, 2.0) + g.random_element(r, 2.0) + [r.uniform(-1, 1) for _ in range(D)]
    ex = engine.Explorer(h.mod, max_paths=64)
    outs = {}
    nouts = {"log_map": D, "log_value": D, "Ad_map": D * D, "Ad_value": D * D, "assign_fwd": R + 1, "assign_bwd": R + 1, "assign_fwd2": R + 2, "assign_bwd2": R + 2}
    for op in OPS:
        fn = "%s_%s" % (t, op)
        nout = nouts.get(op, R)
        res.functions.add(fn)
        if not op.startswith("assign_fwd") and not op.startswith("assign_bwd"):
            # (an overlapping copy is evaluation-order dependent: clang -O1 and g++ -O2 legitimately differ, so it is not a translation-validation
            # subject; its obligation below compares the NATIVE result with the specification directly)
            res.validated += h.validate(fn, sampler, nout, 3)
        for pad in (PAD, 1):  # view at scalar offset 3 and 1 inside the caller buffer (8-byte aligned only)
            def setup(m, ia, oa, pad=pad, nout=nout):
                # sentinels in the guard scalars
                o = m.objs[oa >> interp.OBJ_SHIFT]
                for k in range(pad):
                    m.store_raw(o, 8 * k, 8, T.Sym("guardL%d" % k))
                    m.store_raw(o, 8 * (pad + nout + k), 8, T.Sym("guardR%d" % k))
                return [ia, oa]
            paths = ex.explore(fn, ins, nout, setup=setup, in_pad=pad, out_pad=pad)
            res.note_paths(paths, ex)
            key = "%s/%s/offset%d" % (t, op, pad)
            footprint(res, key, paths, 0, nout, pad, len(ins))
            outs[(op, pad)] = paths
    # results through a Map are the same term DAG as through a value (hence bit-identical)
    for a_, b_ in [("mul_map", "mul_value"), ("inv_map", "inv_value"), ("log_map", "log_value"), ("Ad_map", "Ad_value")]:
        pa, pb = outs[(a_, PAD)], outs[(b_, PAD)]
        key = "%s/%s-vs-value" % (t, a_)
        if len(pa) != len(pb):
            res.add_raw(key, "violated", "different number of paths: %d vs %d" % (len(pa), len(pb)))
            res.violations.append({"key": key, "what": key + ": Map and value versions branch differently"})
            continue
        for i, (x, y) in enumerate(zip(pa, pb)):
            if x.status != "ok" or y.status != "ok":
                continue
            same = all(u is v for u, v in zip(x.outs, y.outs))
            if same:
                res.add_raw("%s/path%d" % (key, i), "holds", "term-DAG identity of all %d outputs (hash-consed) => bit-identical results" % len(x.outs))
            else:
                # fall back to the solver: equal as real functions
                bad = None
                for k, (u, v) in enumerate(zip(x.outs, y.outs)):
                    vd = solver.check_identity(T.nf(T.Sub(u, v)), pc=x.pc)
                    if vd.status != "holds":
                        bad = (k, vd)
                        break
                if bad is None:
                    res.add_raw("%s/path%d" % (key, i), "holds", "z3: equal as real functions (different association order)")
                else:
                    res.add_raw("%s/path%d" % (key, i), "violated", "output %d differs: %s" % (bad[0], bad[1].detail))
                    res.violations.append({"key": key, "what": "%s: Map result differs from value result in output %d" % (key, bad[0])})
    # verbatim copies
    for op in ("assign", "from_value", "to_value"):
        for p in outs[(op, PAD)]:
            if p.status == "ok":
                same = all(u is v for u, v in zip(p.outs, ins[:R]))
                res.add_raw("%s/%s/verbatim" % (t, op), "holds" if same else "violated", "coefficients copied verbatim and in order (term identity)")
                if not same:
                    res.violations.append({"key": "%s/%s/verbatim" % (t, op), "what": "%s %s does not copy the coefficients verbatim" % (t, op)})
    # assignment between partially OVERLAPPING views of one buffer copies the source's coefficients verbatim (both directions)
    for op, side, exp_, sh in (("assign_fwd", "src-after-dst", ins[1:R + 1] + [ins[R]], 1), ("assign_bwd", "dst-after-src", [ins[0]] + ins[:R], 1),
                               ("assign_fwd2", "src-after-dst-by2", ins[2:R + 2] + ins[R:R + 2], 2), ("assign_bwd2", "dst-after-src-by2", ins[:2] + ins[:R], 2)):
        for p in outs[(op, PAD)]:
            if p.status != "ok":
                continue
            same = all(u is v for u, v in zip(p.outs, exp_))
            key_o = "%s/assign-overlap/%s" % (t, side)
            if same:
                res.add_raw(key_o, "holds", "destination holds the source's previous coefficients (term identity), the remaining scalar is untouched")
                continue
            inp = sampler(3)
            outn = h.native("%s_%s" % (t, op), inp, R + sh)
            want = [float(T.evaluate(e, dict(zip([x.args[0] for x in ins], inp)))) for e in exp_]
            if any(a != b for a, b in zip(outn, want)):
                res.add_raw(key_o, "violated", "symbolic copy differs from the source's previous coefficients; reproduced natively")
                res.violations.append({"key": key_o, "what": "%s: assignment between views shifted by one or two scalars (%s) does not copy verbatim: got %r, source held %r" % (key_o, side, outn, want),
                                       "replay": {"property": PID, "key": key_o, "tu_name": h.name, "tu_text": h.text, "fn": "%s_%s" % (t, op), "inputs": inp, "nout": R + sh, "native": outn,
                                                  "err": 1.0, "tol": 0.0, "obligation": "verbatim copy between overlapping views", "lhs": str(outn), "rhs": str(want)}})
            else:
                res.add_raw(key_o, "undecided", "symbolic copy differs, native copy is verbatim (compiler-dependent evaluation order)")
    # self-multiplication through one view == value g*g
    ps, pv = outs[("selfmul", PAD)], None
    exv = engine.Explorer(h.mod, max_paths=64)
    pv = exv.explore("%s_mul_value" % t, ins[:R] + ins[:R], R)
    for i, (x, y) in enumerate(zip(ps, pv)):
        if x.status == "ok" and y.status == "ok":
            bad = None
            for k, (u, v) in enumerate(zip(x.outs, y.outs)):
                vd = solver.check_identity(T.nf(T.Sub(u, v)), pc=x.pc)
                if vd.status != "holds":
                    bad = k
            res.add_raw("%s/selfmul/path%d" % (t, i), "holds" if bad is None else "violated", "o *= o through one view equals g*g (read-after-write consistent)")
            if bad is not None:
                res.violations.append({"key": "%s/selfmul" % t, "what": "%s: o *= o on one view differs from g*g (aliasing)" % t})
    # cast<float>: coefficient-wise conversion in place (fptrunc of each coefficient, same order)
    exf = engine.Explorer(h.mod, max_paths=8, fbits=32)
    fty = engine.FP32

    def collect(m, p, ia, oa):
        pass
    # run with double inputs, float outputs: use a dedicated machine
    m = interp.Machine(h.mod)
    m.run_ctors()
    i_o = m.new_obj(8 * R, "in")
    o_o = m.new_obj(4 * R, "out")
    for k in range(R):
        m.store_raw(i_o, 8 * k, 8, ins[k])
    try:
        m.run("%s_castf" % t, [m.addr(i_o), m.addr(o_o)])
        got = [m.load(m.addr(o_o) + 4 * k, fty) for k in range(R)]
        ntr = sum(1 for e in m.events if e[0] == "fptrunc")
        same = all(u is v for u, v in zip(got, ins[:R])) and ntr == R
        res.add_raw("%s/cast<float>" % t, "holds" if same else "violated", "each coefficient converted by one fptrunc, order preserved (%d conversions)" % ntr)
        res.paths += 1
        res.steps += m.steps
        if not same:
            res.violations.append({"key": "%s/cast" % t, "what": "%s cast<float>() reorders or alters coefficients" % t})
    except Exception as e:
        res.errors.append("%s cast: %r" % (t, e))
    # sub-part views
    for k, (acc, ty, lo, hi) in enumerate(SUBPARTS.get(g.name, [])):
        n = hi - lo
        fn = "%s_sub%d" % (t, k)
        vals = G.syms("v", n)

        def setup(m, ia, oa, R=R):
            o = m.objs[oa >> interp.OBJ_SHIFT]
            for q in range(R + 2 * PAD):
                m.store_raw(o, 8 * q, 8, T.Sym("old%d" % q))
            return [ia, oa]
        paths = ex.explore(fn, vals, R, setup=setup, in_pad=PAD, out_pad=PAD)
        res.note_paths(paths, ex)
        key = "%s/subpart:%s" % (t, acc)
        footprint(res, key, paths, lo, hi, PAD, n)
        for p in paths:
            if p.status == "ok":
                ok = all(p.outs[lo + j] is vals[j] for j in range(n)) and all(p.outs[j].op == "sym" and p.outs[j].args[0] == "old%d" % (PAD + j) for j in range(R) if not lo <= j < hi)
                res.add_raw(key + "/values", "holds" if ok else "violated", "sub-range receives the assigned values verbatim, the rest of the element keeps its old contents")
                if not ok:
                    res.violations.append({"key": key + "/values", "what": key + " assigns wrong scalars"})
        if "Eigen::" in ty:
            continue
        # the same sub-part assigned from an overlapping view of the same buffer (source one scalar after the sub-part)
        fn = "%s_subov%d" % (t, k)
        res.functions.add(fn)
        exp_ = [ins[j + 1] if lo <= j < hi else ins[j] for j in range(R + 1)]
        paths = ex.explore(fn, ins[:R + 1], R + 1, in_pad=PAD, out_pad=PAD)
        res.note_paths(paths, ex)
        key_o = "%s/subpart:%s/assign-overlap/src-after-dst" % (t, acc)
        for p in paths:
            if p.status != "ok":
                res.add_raw(key_o, "undecided", "%s: %s" % (p.status, p.reason))
                continue
            if all(u is v for u, v in zip(p.outs, exp_)):
                res.add_raw(key_o, "holds", "sub-part holds the overlapping source's previous coefficients (term identity), every other scalar untouched")
                continue
            inp = sampler(5)[:R + 1]
            outn = h.native(fn, inp, R + 1)
            want = [inp[j + 1] if lo <= j < hi else inp[j] for j in range(R + 1)]
            if any(a != b for a, b in zip(outn, want)):
                res.add_raw(key_o, "violated", "symbolic copy differs from the source's previous coefficients; reproduced natively")
                res.violations.append({"key": key_o, "what": "%s: sub-part assigned from an overlapping view does not copy verbatim: got %r, expected %r" % (key_o, outn, want),
                                       "replay": {"property": PID, "key": key_o, "tu_name": h.name, "tu_text": h.text, "fn": fn, "inputs": inp, "nout": R + 1, "native": outn,
                                                  "err": 1.0, "tol": 0.0, "obligation": "verbatim copy between overlapping views", "lhs": str(outn), "rhs": str(want)}})
            else:
                res.add_raw(key_o, "undecided", "symbolic copy differs, native copy is verbatim (compiler-dependent evaluation order)")
    return res


def job_bundle(tier):
    T.reset_terms()
    res = check.Result()
    cpp, parts, R = BUNDLE
    h = check.Harness("map_bundle", bundle_tu())
    ex = engine.Explorer(h.mod, max_paths=16)
    for k, (acc, ty, lo, hi) in enumerate(parts):
        n = hi - lo
        vals = G.syms("v", n)

        def setup(m, ia, oa):
            o = m.objs[oa >> interp.OBJ_SHIFT]
            for q in range(R + 2 * PAD):
                m.store_raw(o, 8 * q, 8, T.Sym("old%d" % q))
            return [ia, oa]
        paths = ex.explore("bpart%d" % k, vals, R, setup=setup, in_pad=PAD, out_pad=PAD)
        res.note_paths(paths, ex)
        res.functions.add("bpart%d" % k)
        key = "Bundle<SO3,V3,SE2>/part<%d>" % k
        footprint(res, key, paths, lo, hi, PAD, n)
        for p in paths:
            if p.status == "ok":
                ok = all(p.outs[lo + j] is vals[j] for j in range(n))
                res.add_raw(key + "/values", "holds" if ok else "violated", "part<i>() addresses exactly [RepSizesPsum[i], +RepSizes[i])")
                if not ok:
                    res.violations.append({"key": key, "what": key + " addresses the wrong scalars"})
    return res


def main(tier):
    run = check.Run(PID, tier)
    B = G.BASIC
    groups = [B["SO2"], B["SO3"], B["SE2"], B["SE3"], B["C1"], B["Galilei"], B["SE_1_3"], B["SE_2_3"]]
    if tier == "thorough":
        groups += grouptu.bundle_shapes("quick")
    jobs = [(job, (g, tier)) for g in groups] + [(job_bundle, (tier,))]
    run.extend(check.run_jobs(jobs, timeout=900))
    run.bounds += ["groups: " + ", ".join(g.name for g in groups) + ", Bundle<SO3,V3,SE2> parts", "views at scalar offsets 3 and 1 of a larger caller buffer (8-byte alignment only)"]
    run.assumptions += ["write sets are exact per path (concrete pointers); the claim is per explored path, all inputs",
                        "interleavings of mutating calls: sequential composition o=g; o*=o on one view (no concurrency)"]
    return run.finish()
