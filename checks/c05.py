"""C05: second-order derivative formulas are the true Hessians (DESIGN 4/C05).

Oracles: d2r_exp block i entry (j,k) = d/da_k of the C04 oracle J_ij (symbolic differentiation of the Hermite
matrix exponential); d2r_expinv through J D_k J = -dJ/da_k with D_k(i,j) = H(j, i*n+k) (no inverse needed);
d2r_rminus through the same relation applied to block_i * J; *_squarednorm structurally; d_matrix_product and d2_fog
against the product / chain rule in index form on fully symbolic matrices."""
import random, math
from fractions import Fraction
from symx import terms as T, groups as G, check, solver, oracles as O, engine
from symx.interp import Cond
from . import grouptu, c02, c04

PID = "C05"
TOL = 1e-5


def inv_asm(g, a):
    asm = []
    for blk, ro, do, mo in O.group_blocks(g):
        if blk.rot:
            ang = O.Angle([a[do + i] for i in blk.rot])
            asm.append((Cond("cmp", ang.t, T.Const(Fraction(98633, 10000)), "olt"), True))
    return asm


def inv_sampler(g):
    base = c02.tangent_sampler(g)

    def sampler(k):
        v = base(k)
        for blk, ro, do, mo in O.group_blocks(g):
            if blk.rot:
                nn = math.sqrt(sum(v[do + i] ** 2 for i in blk.rot))
                if nn >= math.pi - 1e-3:
                    for i in blk.rot:
                        v[do + i] *= (math.pi - 2e-3) / nn
        return v
    return sampler


def mp_hess_ref(g, a_num, left, inverse, h=None):
    """reference Hessian by central differences of the mpmath series Jacobian (80 digits, step 1e-20)"""
    mp = check.mpmath()
    n = g.dof
    hstep = mp.mpf(10) ** (-20)
    H = [[None] * (n * n) for _ in range(n)]
    for k in range(n):
        ap = [mp.mpf(x) for x in a_num]
        am = [mp.mpf(x) for x in a_num]
        ap[k] += hstep
        am[k] -= hstep
        Jp = c04.mp_jac(g, ap, left, inverse)
        Jm = c04.mp_jac(g, am, left, inverse)
        for i in range(n):
            for j in range(n):
                H[j][i * n + k] = (Jp[i, j] - Jm[i, j]) / (2 * hstep)
    return H


def job(g, fn, tier, rows=None):
    T.reset_terms()
    res = check.Result()
    h = grouptu.harness(g)
    t = grouptu.tag(g)
    key = "%s/%s" % (t, fn)
    a = G.syms("a", g.dof)
    n = g.dof
    left = fn.startswith("d2l_")
    inv = fn.endswith("inv")
    asm = inv_asm(g, a)
    sampler = inv_sampler(g)
    res.functions.add(t + "_" + fn)
    if rows is None or 0 in rows:
        res.validated += h.validate(t + "_" + fn, c02.tangent_sampler(g, well_conditioned=True), n * n * n, 8)
    ex = engine.Explorer(h.mod, assumptions=asm, max_paths=64)
    paths = ex.explore(t + "_" + fn, a, n * n * n)
    res.note_paths(paths, ex)
    J = c04.jac_oracle(g, a, left)
    budget = 15 if tier == "quick" else 240
    nok = 0
    for pi, p in enumerate(paths):
        pk = "%s/path%d" % (key, pi)
        if p.status != "ok":
            if p.status == "unsupported":
                res.errors.append(pk + ": " + p.reason)
            else:
                res.add_raw(pk, "undecided", "%s: %s" % (p.status, p.reason))
            continue
        nok += 1
        reg = c02.regimes(g, a, p.pc, asm)
        Hm = [p.outs[j * n * n:(j + 1) * n * n] for j in range(n)]  # Hm[j][i*n+k]
        bad = []
        if not inv:
            for i in (range(n) if rows is None else rows):
                for j in range(n):
                    for k in range(n):
                        name = "%s/H%d_%d_%d" % (pk, i, j, k)
                        try:
                            with T.time_budget(budget):
                                v = c04.decide(T.Sub(Hm[j][i * n + k], T.diff(J[i][j], "a%d" % k)), g, a, p, reg, asm, res, tol=TOL / 2)
                        except (T.PolyTooBig, MemoryError):
                            v = solver.Verdict("undecided", "normal form too large / time budget")
                        (res.add(name, v) if v.status == "holds" else bad.append((name, v)))
        else:
            for k in (range(n) if rows is None else rows):
                Dk = [[Hm[j][i * n + k] for j in range(n)] for i in range(n)]
                L = G.mm(G.mm(J, Dk), J)
                for i in range(n):
                    for j in range(n):
                        name = "%s/JDJ%d_%d_%d" % (pk, k, i, j)
                        try:
                            with T.time_budget(budget):
                                v = c04.decide(T.Add(L[i][j], T.diff(J[i][j], "a%d" % k)), g, a, p, reg, asm, res, tol=TOL / 2)
                        except (T.PolyTooBig, MemoryError):
                            v = solver.Verdict("undecided", "normal form too large / time budget")
                        (res.add(name, v) if v.status == "holds" else bad.append((name, v)))
        if bad:
            w = native_witness(h, t, g, fn, sampler, left, inv)
            symv = [v.status == "violated" for _, v in bad]
            for name, v in bad:
                if w is not None:
                    v.status = "violated"
                    res.add(name, v)
                else:
                    res.add_raw(name, "undecided", v.how + " ; not reproduced natively", v.dt)
            if w is not None:
                # key by how it was found: a symbolic verdict 'violated' (formula wrong) vs. only the native replay missing the tolerance
                sym = any(v.status == "violated" and "not reproduced" not in v.how and "budget" not in v.how and v.how.startswith("z3") for _, v in bad)
                rot = max([abs(w["inputs"][do + i]) for blk, ro, do, mo in O.group_blocks(g) for i in blk.rot] + [0.0])
                rn = math.sqrt(sum(w["inputs"][do + i] ** 2 for blk, ro, do, mo in O.group_blocks(g) for i in blk.rot))
                region = "below-switch" if rn * rn < 1e-8 else ("above-switch" if rn < 1e-2 else "generic")
                vkey = "%s/%s" % (key, "formula" if sym else "native-precision/" + region)
                if not any(x["key"] == vkey for x in res.violations):
                    res.violations.append({"key": vkey, "what": "%s: %s" % (vkey, w["what"]), "replay": w})
    if not nok:
        res.errors.append(key + ": vacuous")
    res.axioms.add("d2r_exp block i (j,k) = d/da_k J_ij; d2r_expinv via J D_k J = -dJ/da_k (J = C04 oracle)")
    if (rows is None or 0 in rows) and g.name in ("SO3", "SE2", "SE3"):
        precision_scan(res, h, t, g, fn, left, inv, key, tier)
    return res


def precision_scan(res, h, t, g, fn, left, inv, key, tier):
    """SUPPLEMENTARY (not the deciding step, never turns anything into 'holds'): the symbolic layer is exact arithmetic and cannot see
    floating-point cancellation next to the series switch, so the native routine is replayed on a fixed grid of rotation norms on both sides
    of the switch x {moderate, large} translations against the 80-digit central-difference reference; a reproduced miss of the 1e-5 tolerance is
    a violation keyed by side of the switch."""
    mp = check.mpmath()
    n = g.dof
    r = random.Random(11)
    grid = [(0.3e-4, "below-switch"), (0.9e-4, "below-switch"), (1.0001e-4, "above-switch"), (3e-4, "above-switch"),
            (0.999e-2, "small-angle"), (1.001e-2, "small-angle")]   # theta^2 = 1e-4 is the switch of the higher-order tails (trig.hpp eps2_tail)
    if tier == "thorough":
        grid += [(1e-5, "below-switch"), (1.5e-4, "above-switch"), (1e-3, "above-switch"), (2e-3, "small-angle"), (0.03, "small-angle"), (0.1, "small-angle"), (0.3, "small-angle")]
    worst = {}
    npts = 0
    for th, side in grid:
        for ts in ((1000.0,) if g.name == "SE3" and tier == "quick" else (1.0, 1000.0)):
            a = [r.uniform(-ts, ts) for _ in range(n)]
            idx = list(g.rot)
            nn = math.sqrt(sum(a[i] ** 2 for i in idx)) or 1.0
            for i in idx:
                a[i] = a[i] / nn * th
            out = h.native(t + "_" + fn, a, n ** 3)
            H = mp_hess_ref(g, a, left, inv)
            sc = max([abs(H[j][c]) for j in range(n) for c in range(n * n)] + [mp.mpf(1)])
            e = max((float(abs(mp.mpf(out[j * n * n + c]) - H[j][c]) / sc) if out[j * n * n + c] == out[j * n * n + c] else float("inf")) for j in range(n) for c in range(n * n))
            npts += 1
            if e > worst.get(side, (0, None))[0]:
                worst[side] = (e, a, out)
    for side, (e, a, out) in worst.items():
        if not (e <= TOL):
            vkey = "%s/native-precision/%s" % (key, side)
            res.violations.append({"key": vkey, "what": "%s: native %s(a) is %.3g relative off the 80-digit central-difference Hessian (tolerance %g) at rotation norm %.3g, a=%r"
                                   % (vkey, fn, e, TOL, math.sqrt(sum(a[i] ** 2 for i in g.rot)), a),
                                   "replay": {"property": PID, "key": vkey, "tu_name": h.name, "tu_text": h.text, "fn": t + "_" + fn, "inputs": a, "nout": n ** 3, "native": out, "err": e,
                                              "tol": TOL, "obligation": "native precision scan", "lhs": "native", "rhs": "mp reference"}})
            res.add_raw("%s/native-precision-scan/%s" % (key, side), "violated", "native replay vs 80-digit reference: %.3g" % e)
    res.notes.append("%s: supplementary native precision scan, %d points, worst %s" % (key, npts, {k_: "%.2e" % v_[0] for k_, v_ in worst.items()}))


def native_witness(h, t, g, fn, sampler, left, inv, ntry=3):
    mp = check.mpmath()
    n = g.dof
    for k in range(ntry):
        a = sampler(k + 3000)
        if max(abs(x) for x in a) > 8:
            continue
        out = h.native(t + "_" + fn, a, n * n * n)
        H = mp_hess_ref(g, a, left, inv)
        sc = max([abs(H[j][c]) for j in range(n) for c in range(n * n)] + [mp.mpf(1)])
        worst = 0.0
        for j in range(n):
            for c in range(n * n):
                x = out[j * n * n + c]
                e = float(abs(mp.mpf(x) - H[j][c]) / sc) if x == x else float("inf")
                worst = max(worst, e)
        if not (worst <= TOL):
            return {"property": PID, "key": "%s/%s" % (t, fn), "tu_name": h.name, "tu_text": h.text, "fn": t + "_" + fn, "inputs": a, "nout": n ** 3,
                    "native": out, "err": worst, "tol": TOL,
                    "what": "native %s(a) differs from the central-difference Hessian of the mpmath series Jacobian by %.3g relative at a=%r" % (fn, worst, a)}
    return None


def job_rminus(g, tier):
    """dr_rminus, d2r_rminus, dr_rminus_squarednorm, d2r_rminus_squarednorm evaluated at the same e"""
    T.reset_terms()
    res = check.Result()
    h = grouptu.harness(g)
    t = grouptu.tag(g)
    key = "%s/rminus_derivs" % t
    a = G.syms("a", g.dof)
    n = g.dof
    asm = inv_asm(g, a)
    sampler = inv_sampler(g)
    nout = n * n + n ** 3 + n + n * n
    res.functions.add(t + "_rminus_derivs")
    res.validated += h.validate(t + "_rminus_derivs", c02.tangent_sampler(g, well_conditioned=True), nout, 6)
    ex = engine.Explorer(h.mod, assumptions=asm, max_paths=128)
    paths = ex.explore(t + "_rminus_derivs", a, nout)
    res.note_paths(paths, ex)
    J = c04.jac_oracle(g, a, False)
    budget = 15 if tier == "quick" else 240
    nok = 0
    for pi, p in enumerate(paths):
        pk = "%s/path%d" % (key, pi)
        if p.status != "ok":
            res.add_raw(pk, "undecided", "%s: %s" % (p.status, p.reason))
            continue
        nok += 1
        reg = c02.regimes(g, a, p.pc, asm)
        o = p.outs
        Ji = [o[i * n:(i + 1) * n] for i in range(n)]
        Hm = [o[n * n + j * n * n: n * n + (j + 1) * n * n] for j in range(n)]
        sq1 = o[n * n + n ** 3: n * n + n ** 3 + n]
        sq2 = [o[n * n + n ** 3 + n + i * n: n * n + n ** 3 + n + (i + 1) * n] for i in range(n)]
        obl = []
        P = G.mm(J, Ji)
        I = G.eye(n)
        for i in range(n):
            for j in range(n):
                obl.append(("dr_rminus/JJinv%d_%d" % (i, j), T.Sub(P[i][j], I[i][j])))
        for j in range(n):
            obl.append(("dr_rminus_sqn/%d" % j, T.Sub(sq1[j], G.sum_terms([T.Mul(a[i], Ji[i][j]) for i in range(n)]))))
        # d2r_rminus: X_i = block_i * J  is the claimed  d Jinv_ij / d a_k ;  J D_k J = - dJ/da_k
        X = []
        for i in range(n):
            Bi = [[Hm[j][i * n + k] for k in range(n)] for j in range(n)]
            X.append(G.mm(Bi, J))
        for k in range(n):
            Dk = [[X[i][j][k] for j in range(n)] for i in range(n)]
            L = G.mm(G.mm(J, Dk), J)
            for i in range(n):
                for j in range(n):
                    obl.append(("d2r_rminus/JDJ%d_%d_%d" % (k, i, j), T.Add(L[i][j], T.diff(J[i][j], "a%d" % k))))
        for x in range(n):
            for y in range(n):
                rhs = G.sum_terms([T.Mul(Ji[j][x], Ji[j][y]) for j in range(n)] + [T.Mul(a[j], Hm[x][j * n + y]) for j in range(n)])
                obl.append(("d2r_rminus_sqn/%d_%d" % (x, y), T.Sub(sq2[x][y], rhs)))
        und = []
        for name, term in obl:
            try:
                with T.time_budget(budget):
                    v = c04.decide(term, g, a, p, reg, asm, res, tol=TOL / 2)
            except (T.PolyTooBig, MemoryError):
                v = solver.Verdict("undecided", "normal form too large / time budget")
            if v.status == "holds":
                res.add("%s/%s" % (pk, name), v)
            else:
                res.add_raw("%s/%s" % (pk, name), "undecided", v.how, v.dt)
    if not nok:
        res.errors.append(key + ": vacuous")
    return res


def helper_tu():
    lines = ['#include "vh.hpp"']
    for (N, V) in DMP:
        lines.append('extern "C" void dmp_%d_%d(const double* in, double* out) { vh::dmp<double, %d, %d>(in, out); }' % (N, V, N, V))
    for (no, ny, nx, dyn) in FOG:
        lines.append('extern "C" void fog_%d_%d_%d_%d(const double* in, double* out) { vh::d2fog<double, %d, %d, %d, %s>(in, out); }'
                     % (no, ny, nx, int(dyn), no, ny, nx, "true" if dyn else "false"))
    return "\n".join(lines) + "\n"


DMP = [(1, 1), (2, 1), (2, 3), (3, 2), (3, 3)]
FOG = [(1, 1, 1, False), (2, 3, 2, False), (1, 3, 3, False), (3, 2, 2, True), (2, 2, 3, True)]
DMP_T = [(4, 2), (5, 1), (6, 2), (2, 6)]
FOG_T = [(3, 3, 3, False), (1, 6, 6, False), (4, 3, 2, True)]


def job_helpers(tier):
    T.reset_terms()
    res = check.Result()
    global DMP, FOG
    if tier == "thorough":
        DMP = DMP + DMP_T
        FOG = FOG + FOG_T
    h = check.Harness("derivhelpers_" + tier, helper_tu())
    rnd = random.Random(3)
    for (N, V) in DMP:
        nin = 2 * N * N + 2 * N * N * V
        ins = G.syms("x", nin)
        A = [ins[i * N:(i + 1) * N] for i in range(N)]
        o = N * N
        dA = [ins[o + i * N * V: o + (i + 1) * N * V] for i in range(N)]
        o += N * N * V
        B = [ins[o + i * N:o + (i + 1) * N] for i in range(N)]
        o += N * N
        dB = [ins[o + i * N * V: o + (i + 1) * N * V] for i in range(N)]

        def orc(_ins, A=A, dA=dA, B=B, dB=dB, N=N, V=V):
            out = []
            for j in range(N):
                for i in range(N):
                    for v in range(V):
                        out.append(G.sum_terms([T.Add(T.Mul(dA[k][i * V + v], B[k][j]), T.Mul(A[i][k], dB[j][k * V + v])) for k in range(N)]))
            return out
        check.check_wrapper(res, h, "dmp_%d_%d" % (N, V), ins, N * N * V, orc, "d_matrix_product/%dx%d/%dvars" % (N, N, V), tol=1e-9, pid=PID,
                            sampler=lambda k, nin=nin: [random.Random(k * 7 + i).uniform(-2, 2) for i in range(nin)], nvalidate=5)
    for (no, ny, nx, dyn) in FOG:
        nin = no * ny + ny * no * ny + ny * nx + nx * ny * nx
        ins = G.syms("x", nin)
        o = 0
        Jf = [ins[o + i * ny:o + (i + 1) * ny] for i in range(no)]
        o += no * ny
        Hf = [ins[o + i * no * ny:o + (i + 1) * no * ny] for i in range(ny)]
        o += ny * no * ny
        Jg = [ins[o + i * nx:o + (i + 1) * nx] for i in range(ny)]
        o += ny * nx
        Hg = [ins[o + i * ny * nx:o + (i + 1) * ny * nx] for i in range(nx)]

        def orc(_ins, Jf=Jf, Hf=Hf, Jg=Jg, Hg=Hg, no=no, ny=ny, nx=nx):
            out = []
            for a_ in range(nx):
                for i in range(no):
                    for b in range(nx):
                        t1 = G.sum_terms([T.Mul(T.Mul(Jg[j][a_], Hf[j][i * ny + k]), Jg[k][b]) for j in range(ny) for k in range(ny)])
                        t2 = G.sum_terms([T.Mul(Jf[i][j], Hg[a_][j * nx + b]) for j in range(ny)])
                        out.append(T.Add(t1, t2))
            return out
        check.check_wrapper(res, h, "fog_%d_%d_%d_%d" % (no, ny, nx, int(dyn)), ins, nx * no * nx, orc,
                            "d2_fog/no%d_ny%d_nx%d_%s" % (no, ny, nx, "dynamic" if dyn else "static"), tol=1e-9, pid=PID,
                            sampler=lambda k, nin=nin: [random.Random(k * 11 + i).uniform(-2, 2) for i in range(nin)], nvalidate=5)
    res.bounds.add("d_matrix_product sizes (N,Nvar): %s ; d2_fog sizes (No,Ny,Nx,dynamic): %s" % (DMP, FOG))
    return res


def _compile(g):
    grouptu.harness(g)
    return check.Result()


def main(tier):
    run = check.Run(PID, tier)
    check.JOB_BUDGET[0] = 240 if tier == 'quick' else 1500
    B = G.BASIC
    groups = [B["SO2"], B["SO3"], B["SE2"], B["C1"]] + ([B["SE3"], G.Bundle([B["SO3"], G.Tn(3)])] if tier == "thorough" else [])
    check.run_jobs([(_compile, (g,)) for g in groups + ([B["SE3"]] if tier == "quick" else [])])
    jobs = [(job_helpers, (tier,))]
    for g in groups:
        for fn in ["d2r_exp", "d2r_expinv", "d2l_exp", "d2l_expinv"]:
            if g.dof <= 3:
                jobs.append((job, (g, fn, tier)))
            else:
                jobs += [(job, (g, fn, tier, [i])) for i in range(g.dof)]
        jobs.append((job_rminus, (g, tier)))
    if tier == "quick":
        # SE3: the two exp Hessians row by row under the quick budget (inverse Hessians are thorough-only)
        jobs += [(job, (B["SE3"], fn, tier, [i])) for fn in ["d2r_exp"] for i in range(6)]
    run.extend(check.run_jobs(jobs, timeout=900 if tier == "quick" else 1800))
    run.bounds += ["groups: " + ", ".join(g.name for g in groups) + (" + SE3 d2r_exp" if tier == "quick" else ""),
                   "rotation norm^2 < 9.8633 (= (pi-1e-3)^2)", "per-obligation time budget %ds (exceeded -> undecided, never success)" % (15 if tier == "quick" else 240)]
    run.assumptions += ["layer R", "C04 oracle J (derivative of the Hermite matrix exponential)"]
    return run.finish()
