"""C15: representation invariants survive any history of operations (DESIGN 4/C15) -- decided as inductive steps:
for every state-producing operation, a pre-state on the constraint manifold with canonical sign gives a post-state on it
(unit norm exactly on closed-form paths, within 1e-14 on series paths; q_w >= 0 on every return path; no division by zero)."""
import random, math
from fractions import Fraction
from symx import terms as T, groups as G, check, solver, engine, oracles as O
from symx.interp import Cond
from . import grouptu, c02, c06

PID = "C15"
OPS = {"compose": ("g", "g"), "inverse": ("g",), "exp": ("a",), "rplus": ("g", "a")}


def job(g, op, tier):
    T.reset_terms()
    res = check.Result()
    h = grouptu.harness(g)
    t = grouptu.tag(g)
    key = "%s/%s" % (t, op)
    kinds = OPS[op]
    ins, rules, asm = [], [], []
    unit_asm, unit_idx = [], []     # the unit-norm constraints as explicit conditions (for counterexample queries) / index sets (to project inputs)
    tang = None
    for ki, k in enumerate(kinds):
        if k == "g":
            x = G.syms("g%d_" % ki, g.rep)
            for sl in g.unit_slices():
                unit_asm.append((Cond("cmp", G.dot([x[i] for i in sl], [x[i] for i in sl]), T.Const(1), "oeq"), True))
                unit_idx.append([len(ins) + i for i in sl])
            ins += x
            rules += g.rules(x)
            asm += g.canon(x)
        else:
            tang = G.syms("a%d_" % ki, g.dof)
            ins += tang
    T.CTX.rules = list(rules)

    def sampler(k):
        r = random.Random(k)
        out = []
        for kk in kinds:
            out += g.random_element(r, 3.0) if kk == "g" else c02.tangent_sampler(g)(k)
        return out
    fn = t + "_" + op
    res.functions.add(fn)
    res.validated += h.validate(fn, sampler, g.rep, 6)
    ex = engine.Explorer(h.mod, assumptions=asm, max_paths=96)
    paths = ex.explore(fn, ins, g.rep)
    res.note_paths(paths, ex)
    nok = 0
    for pi, p in enumerate(paths):
        pk = "%s/path%d" % (key, pi)
        if p.status != "ok":
            res.add_raw(pk, "undecided", "%s: %s" % (p.status, p.reason))
            continue
        nok += 1
        # (a) unit norm of every constrained coefficient sub-vector
        for si, sl in enumerate(g.unit_slices()):
            v = [p.outs[i] for i in sl]
            term = T.Sub(G.dot(v, v), T.Const(1))
            try:
                with T.time_budget(20):
                    vd = solver.check_identity(T.nf(term), pc=p.pc, assumptions=asm, extra_rules=rules)
                    if vd.status != "holds" and tang is not None:
                        reg = c02.regimes(g, tang, p.pc, asm)
                        if any(r[0] == "series" for r in reg.values()):
                            num, den = c02.series_residual(term, g, tang, reg)
                            num = T.reduce_poly(num, None, rules)
                            box = c02.series_box(num, den, g, reg, 1)
                            if box is not None:
                                vb = solver.check_bound(num, box, Fraction(1, 10**14), den_poly=None if T.p_is_const(den) else den, max_split=8)
                                if vb.status == "holds":
                                    vb.how = "series path: | |q|^2 - 1 | <= 1e-14 by " + vb.how
                                    vd = vb
            except (T.PolyTooBig, MemoryError):
                vd = solver.Verdict("undecided", "budget")
            name = "%s/unit-norm%d" % (pk, si)
            if vd.status == "holds":
                res.add(name, vd)
            else:
                w = norm_witness(h, fn, g, sampler, sl)
                if w:
                    res.add_raw(name, "violated", vd.how, vd.dt)
                    res.violations.append({"key": key + "/unit-norm", "what": "%s: %s" % (key, w)})
                else:
                    res.add_raw(name, "undecided", vd.how + " ; not reproduced natively", vd.dt)
            # (b) canonical sign for quaternion parts
            if len(sl) == 4:
                ok = solver.entails(p.pc, Cond("cmp", p.outs[sl[3]], T.Const(0), "oge"), True, asm, timeout_ms=5000)
                if not ok:
                    # rules (unit norm of inputs) may be needed
                    ok = entails_rules(p.pc + asm, Cond("cmp", p.outs[sl[3]], T.Const(0), "olt"), rules)
                name = "%s/canonical-sign%d" % (pk, si)
                if ok:
                    res.add_raw(name, "holds", "z3: path condition entails q_w >= 0 on this return path")
                else:
                    w = None
                    # the solver's own counterexample first: a model of  PC & assumptions & q_w < 0  replayed on the native build
                    rs, model = solver.counterexample(p.pc, Cond("cmp", p.outs[sl[3]], T.Const(0), "oge"), True, asm + unit_asm, timeout_ms=5000)
                    if rs == "sat":
                        env = {T.ATOM_LIST[i][1]: v for i, v in model.items() if T.ATOM_LIST[i][0] == "sym"}
                        base = sampler(7)
                        inp = [env.get(x.args[0], b) for x, b in zip(ins, base)]
                        for idx in unit_idx:      # project onto the constraint manifold: only VALID elements are replayed
                            nn = math.sqrt(sum(inp[i] ** 2 for i in idx))
                            if nn > 0:
                                for i in idx:
                                    inp[i] /= nn
                        valid = all(abs(sum(inp[i] ** 2 for i in idx) - 1) < 1e-12 for idx in unit_idx) and all(inp[idx[-1]] >= 0 for idx in unit_idx if len(idx) == 4)
                        if valid and all(v == v and abs(v) < 1e300 for v in inp):
                            out = h.native(fn, inp, g.rep)
                            if out[sl[3]] < 0:
                                w = "z3 model replayed natively: q_w = %r < 0 at input %r" % (out[sl[3]], inp)
                    if w is None:
                        w = sign_witness(h, fn, g, sampler, sl)
                    if w:
                        res.add_raw(name, "violated", "q_w < 0 reachable")
                        res.violations.append({"key": key + "/canonical-sign", "what": "%s: %s" % (key, w)})
                    else:
                        res.add_raw(name, "undecided", "z3 could not prove q_w >= 0; not reproduced natively")
        # (c) finiteness: every divisor on the path is non-zero
        divs = []
        seen = set()
        for e in p.events:
            if e[0] == "div" and isinstance(e[1], T.Term) and e[1].id not in seen and e[1].op != "const":
                seen.add(e[1].id)
                divs.append(e[1])
        bad = 0
        for d in divs[:24]:
            okd = entails_rules(p.pc + asm, Cond("cmp", d, T.Const(0), "oeq"), rules)
            if not okd:
                bad += 1
        name = "%s/no-zero-division" % pk
        if bad == 0:
            res.add_raw(name, "holds", "z3: each of the %d symbolic divisors on this path is non-zero under the path condition" % len(divs))
        else:
            res.add_raw(name, "undecided", "%d of %d divisors not shown non-zero" % (bad, len(divs)))
    if not nok:
        res.errors.append(key + ": vacuous")
    return res


def entails_rules(conds, neg_goal, rules):
    """unsat(conds & neg_goal & rules)"""
    z = solver.Z()
    fs, atoms = [], set()
    for c, pol in list(conds) + [(neg_goal, True)]:
        f, side = z.cond(c, pol)
        fs.append(f)
        fs += side
        solver.cond_atoms(c, atoms)
    fs += solver.atom_axioms(z, atoms)
    for (at, k, rep) in rules:
        x = z.atom(at)
        fs.append(x * x == z.poly(rep))
    rs, m, dt = solver.check(fs, 5000)
    return rs == "unsat"


def norm_witness(h, fn, g, sampler, sl):
    for k in range(60):
        inp = sampler(k + 100)
        out = h.native(fn, inp, g.rep)
        n2 = sum(out[i] ** 2 for i in sl)
        if not abs(n2 - 1) <= 2e-14:
            return "native output has |q|^2 - 1 = %.3g at input %r" % (n2 - 1, inp)
    return None


def sign_witness(h, fn, g, sampler, sl):
    for k in range(200):
        inp = sampler(k + 100)
        out = h.native(fn, inp, g.rep)
        if out[sl[3]] < 0:
            return "native output has q_w = %r < 0 at input %r" % (out[sl[3]], inp)
    return None


ODE_G = {"SO3": "smooth::SO3d", "SE2": "smooth::SE2d"}
STEPPERS = ["euler", "runge_kutta4", "runge_kutta_cash_karp54", "runge_kutta_dopri5"]


def ode_tu():
    L = ['#include "vode.hpp"']
    for gn, cpp in ODE_G.items():
        for N in (1, 2, 3, 4, 6):
            L.append('extern "C" void ss_%s_%d(const double* i, double* o){ vode::scale_sum<%s,%d>(i,o);}' % (gn, N, cpp, N))
        for s in range(4):
            L.append('extern "C" void st_%s_%d(const double* i, double* o){ vode::step<%s,%d>(i,o);}' % (gn, s, cpp, s))
    return "\n".join(L) + "\n"


def job_ode(gn, kind, n, tier):
    """scale_sum<N>: y = x (+) sum alpha_{i+1} a_i ; explicit steppers: one step with constant body velocity v is x (+) h v"""
    T.reset_terms()
    res = check.Result()
    h = check.Harness("odeint", ode_tu())
    g = G.BASIC[gn]
    hp = grouptu.harness(g)
    R, D = g.rep, g.dof
    x = G.syms("x", R)
    rules = g.rules(x)
    T.CTX.rules = list(rules)
    asm = g.canon(x)
    if kind == "scale_sum":
        N = n
        al = G.syms("al", N + 1)
        a = [G.syms("a%d_" % k, D) for k in range(N)]
        ins = x + al + [y for v in a for y in v]
        tang = [G.sum_terms([T.Mul(al[k + 1], a[k][c]) for k in range(N)]) for c in range(D)]
        fn = "ss_%s_%d" % (gn, N)
        key = "odeint/scale_sum%d/%s" % (N + 1, gn)
    else:
        v = G.syms("v", D)
        hh = T.Sym("h")
        ins = x + v + [hh]
        tang = [T.Mul(hh, c) for c in v]
        fn = "st_%s_%d" % (gn, n)
        key = "odeint/%s/%s" % (STEPPERS[n], gn)
    # small-angle declarations are not needed: both sides run the same exp on the same tangent

    def sampler(k):
        r = random.Random(k)
        return g.random_element(r, 2.0) + [r.uniform(-1, 1) for _ in range(len(ins) - R)]
    res.functions.add(fn)
    res.validated += h.validate(fn, sampler, R, 5)
    ex = engine.Explorer(h.mod, assumptions=asm, max_paths=400)
    paths = ex.explore(fn, ins, R)
    res.note_paths(paths, ex)
    exq = engine.Explorer(hp.mod, assumptions=asm, max_paths=64)
    qs = [q for q in exq.explore(grouptu.tag(g) + "_rplus", x + tang, R) if q.status == "ok"]
    res.note_paths(qs, exq)
    feas = solver.Feasibility(asm, 2000)
    nok = 0
    for pi, p in enumerate(paths):
        pk = "%s/path%d" % (key, pi)
        if p.status != "ok":
            res.add_raw(pk, "undecided", "%s: %s" % (p.status, p.reason))
            continue
        matched = 0
        for q in qs:
            if not all(feas(p.pc, c, pol) is not False for c, pol in q.pc):
                continue
            matched += 1
            bad = None
            for i in range(R):
                try:
                    with T.time_budget(15):
                        vd = solver.check_identity(T.nf(T.Sub(p.outs[i], q.outs[i])), pc=p.pc + q.pc, assumptions=asm, extra_rules=rules)
                except (T.PolyTooBig, MemoryError):
                    vd = solver.Verdict("undecided", "budget")
                if vd.status != "holds":
                    bad = (i, vd)
                    break
            if bad is None:
                nok += 1
                res.add_raw("%s.%d" % (pk, matched), "holds", "z3: result equals rplus(x, %s) term by term" % ("sum alpha_i a_i" if kind == "scale_sum" else "h v"))
            else:
                w = None
                if bad[1].status == "violated":
                    w = ode_witness(h, hp, g, fn, kind, n, sampler)
                if w:
                    res.add_raw("%s.%d" % (pk, matched), "violated", bad[1].how)
                    res.violations.append({"key": key, "what": "%s: %s" % (key, w)})
                else:
                    res.add_raw("%s.%d" % (pk, matched), "undecided", bad[1].how + " ; not reproduced natively")
    if not nok:
        res.notes.append(key + ": no path matched")
    return res


def ode_witness(h, hp, g, fn, kind, n, sampler):
    R, D = g.rep, g.dof
    for k in range(30):
        inp = sampler(k + 50)
        out = h.native(fn, inp, R)
        if kind == "scale_sum":
            al = inp[R:R + n + 1]
            a = [inp[R + n + 1 + j * D: R + n + 1 + (j + 1) * D] for j in range(n)]
            tang = [sum(al[j + 1] * a[j][c] for j in range(n)) for c in range(D)]
        else:
            v = inp[R:R + D]
            tang = [inp[R + D] * c for c in v]
        ref = hp.native(grouptu.tag(g) + "_rplus", inp[:R] + tang, R)
        e = max(abs(x - y) for x, y in zip(out, ref))
        if e > 1e-9:
            return "native result %r differs from x (+) tangent %r = %r" % (out, tang, ref)
    return None


def _compile(g):
    grouptu.harness(g)
    return check.Result()


def _compile_ode():
    check.Harness("odeint", ode_tu())
    return check.Result()


def main(tier):
    run = check.Run(PID, tier)
    check.JOB_BUDGET[0] = 240 if tier == "quick" else 1500
    B = G.BASIC
    groups = [B["SO2"], B["SO3"], B["SE2"], B["SE3"], G.Bundle([B["SO3"], G.Tn(3)])] + ([B["Galilei"], B["SE_2_3"]] if tier == "thorough" else [])
    check.run_jobs([(_compile, (g,)) for g in groups] + [(_compile_ode, ())])
    jobs = [(job, (g, op, tier)) for g in groups for op in OPS]
    for gn in ODE_G:
        jobs += [(job_ode, (gn, "scale_sum", N, tier)) for N in (1, 2, 3, 4, 6)]
        jobs += [(job_ode, (gn, "step", s, tier)) for s in range(4)]
    run.extend(check.run_jobs(jobs, timeout=900 if tier == "quick" else 1800))
    run.bounds += ["groups: " + ", ".join(g.name for g in groups), "one operation from an arbitrary valid state (inductive step); odeint: scale_sum arities 2,3,4,5,7 and euler/rk4/cash-karp/dopri5 on SO3, SE2"]
    run.assumptions += ["layer R: exact real arithmetic; the (n+1)*1e-14 drift bound of long floating-point chains is a sampling statement and outside the claim",
                        "exactness of each operation against the group-theoretic result is C01/C02", "adaptive steppers outside"]
    return run.finish()
