"""C18: non-mutating operations are safe to run concurrently (DESIGN 4/C18).

Footprint argument: if, for every input and path, a const operation stores only to memory the calling thread owns
(its stack, objects it allocates during the call, its output buffer) and to once-only initialisation regions bracketed by
__cxa_guard_acquire/release, then any interleaving of any number of threads is data-race free and every thread computes
its sequential result.  symx has the exact store set of every path."""
import random, math
from symx import terms as T, groups as G, check, solver, engine, interp

PID = "C18"
OPS = {"op_group": 4 + 3 + 9 + 6 + 2 + 9 + 27 + 6, "op_sub": 4 + 2 + 1, "op_any": 4 + 3 + 1, "op_vec": 8 + 6, "op_spline": 4 + 3 + 3 + 1,
       "op_bspline": 4 + 3 + 3, "op_sparse": 9 + 9 + 27 + 27 + 9}
TU = '#include "vconc.hpp"\n'
NIN = 27


def rq(r):
    q = [r.gauss(0, 1) for _ in range(4)]
    n = math.sqrt(sum(x * x for x in q))
    q = [x / n for x in q]
    return q if q[3] >= 0 else [-x for x in q]


def concrete_input(k, t=None):
    r = random.Random(k)
    so3 = rq(r)
    se2 = [r.uniform(-1, 1), r.uniform(-1, 1)] + [math.sin(0.3 + k), math.cos(0.3 + k)]
    se3 = [r.uniform(-1, 1) for _ in range(3)] + rq(r)
    return so3 + se2 + se3 + rq(r) + rq(r) + [r.uniform(-0.5, 0.5) for _ in range(3)] + [t if t is not None else r.uniform(0.1, 3.0)]


def job(op, tier):
    T.reset_terms()
    res = check.Result()
    h = check.Harness("conc", TU)
    nout = OPS[op]
    key = op
    # differential validation of init+op against the native build
    lib = h.lib
    import ctypes
    for k in range(4):
        inp = concrete_input(k)
        a = (ctypes.c_double * NIN)(*inp)
        o = (ctypes.c_double * nout)()
        lib.conc_init(a, o)
        getattr(lib, op)(a, o)
        m = interp.Machine(h.mod, mode="conc")
        m.run_ctors()
        i_ = m.new_obj(8 * NIN, "in")
        o_ = m.new_obj(8 * nout, "out")
        for q, x in enumerate(inp):
            m.store_raw(i_, 8 * q, 8, float(x))
        m.run("conc_init", [m.addr(i_), m.addr(o_)])
        m.run(op, [m.addr(i_), m.addr(o_)])
        got = [m.load(m.addr(o_) + 8 * q, engine.FP64) for q in range(nout)]
        for x, y in zip(list(o), got):
            if not abs(x - y) <= 1e-9 * max(1.0, abs(x)):
                raise RuntimeError("translation validation failed for %s: %r vs %r" % (op, list(o), got))
        res.validated += 1
    # symbolic run: shared object contents symbolic where cheap (tangent, evaluation time), concrete elements otherwise
    base = concrete_input(7)
    ins = [x for x in base]
    for q in (23, 24, 25):
        ins[q] = T.Sym("w%d" % q)
    ins[26] = T.Sym("t")
    asm = []
    from symx.interp import Cond
    if op in ("op_spline", "op_bspline"):
        # fix the spline data, keep the evaluation time symbolic over the whole real line (in-range, knots, outside)
        ins[23], ins[24], ins[25] = base[23], base[24], base[25]
    else:
        ins[26] = base[26]
    shared_ids = {}

    def setup(m, ia, oa):
        m.run("conc_init", [ia, oa])
        shared_ids["ids"] = set(m.objs) - {oa >> interp.OBJ_SHIFT}
        m.writes = {}
        m.guard_writes = {}
        return [ia, oa]
    ex = engine.Explorer(h.mod, assumptions=asm, max_paths=200)
    paths = ex.explore(op, ins, nout, setup=setup)
    res.note_paths(paths, ex)
    if ex.truncated:
        res.notes.append(key + ": path budget (200) exhausted; unexplored paths are outside the claim")
        res.bounds.add(key + ": at most 200 paths explored")
    res.functions.add(op)
    nok = 0
    for pi, p in enumerate(paths):
        pk = "%s/path%d" % (key, pi)
        if p.status not in ("ok",):
            if p.status == "memerror":
                res.add_raw(pk + "/memory", "violated", p.reason)
                res.violations.append({"key": key + "/memory", "what": "%s: %s" % (key, p.reason)})
            else:
                res.add_raw(pk, "undecided", "%s: %s" % (p.status, p.reason))
            continue
        nok += 1
        bad = []
        for oid, ws in p.writes.items():
            if oid in shared_ids["ids"]:
                kind, name, size = p.machine_objs[oid]
                bad.append((kind, name, size, sorted(ws)[:3]))
        if bad:
            desc = "; ".join("%s object %s (size %d) at %s" % b for b in bad[:3])
            res.add_raw(pk + "/no-shared-write", "violated", "store to pre-existing object(s): " + desc)
            res.violations.append({"key": key + "/shared-write", "what": "%s (const operation on shared objects) stores to memory that existed before the call: %s -> data race "
                                   "when two threads run it on the same object" % (key, desc)})
        else:
            ng = sum(len(w) for w in getattr(p, "guard_writes", {}).values()) if hasattr(p, "guard_writes") else 0
            res.add_raw(pk + "/no-shared-write", "holds", "exact store set of the path touches only the output buffer, the call's own stack frames and objects allocated during the call")
    if not nok:
        res.errors.append(key + ": vacuous")
    return res


def main(tier):
    run = check.Run(PID, tier)
    check.run_jobs([(_compile, ())])
    run.extend(check.run_jobs([(job, (op, tier)) for op in OPS], timeout=900))
    run.bounds += ["operations: group/tangent functions on SO3, SE2, SE3, Bundle<SO3,V3>; SubManifold<SO3>, AnyManifold, std::vector<SO3> rplus/rminus/dof; "
                   "Spline<3,SE2> and BSpline<3,SO3> evaluation for ALL evaluation times (symbolic t); sparse derivative evaluation into private copies",
                   "shared objects built once (heap) before the operations; store sets are exact per path"]
    run.assumptions += ["interleavings are covered by the footprint argument (disjoint write sets + read-only shared data => race free, sequential results)",
                        "once-only initialisation inside __cxa_guard_acquire/release is trusted to the C++ runtime; static initialisers run before main",
                        "hardware memory-model effects outside"]
    return run.finish()


def _compile():
    check.Harness("conc", TU)
    return check.Result()
