"""Hash-consed real-valued term DAG + sparse rational-function normal form (DESIGN 2.2/2.3).

Layer R semantics: every IR floating-point operation is the exact real operation; FP literals are
snapped to the simplest rational within half an ulp (DESIGN 2.4)."""
from fractions import Fraction
import math, struct

# ----------------------------------------------------------------------------------------------
# literal snapping
_snap_cache = {}
SNAP_LOG = {}


def _simplest_between(lo: Fraction, hi: Fraction) -> Fraction:
    """Simplest rational (smallest denominator) in the closed interval [lo, hi], lo<=hi."""
    if lo > hi:
        lo, hi = hi, lo
    if lo <= 0 <= hi:
        return Fraction(0)
    if hi < 0:
        return -_simplest_between(-hi, -lo)
    # 0 < lo <= hi : continued fraction walk
    fl = math.floor(lo)
    if fl == lo:
        return Fraction(fl)
    if fl + 1 <= hi:
        return Fraction(fl + 1)
    rem = _simplest_between(1 / (hi - fl), 1 / (lo - fl))
    return fl + 1 / rem


def snap(x: float, bits: int = 64) -> Fraction:
    key = (x, bits)
    r = _snap_cache.get(key)
    if r is not None:
        return r
    if math.isinf(x) or math.isnan(x):
        raise ValueError("non-finite literal")
    if x == 0:
        r = Fraction(0)
    else:
        fx = Fraction(x)
        m, e = math.frexp(x)
        prec = 53 if bits == 64 else 24
        ulp = Fraction(2) ** (e - prec)
        r = _simplest_between(fx - ulp / 2, fx + ulp / 2)
        # prefer the exact value if it is already "simple" (small integers, dyadics)
        if fx.denominator <= r.denominator:
            r = fx
    _snap_cache[key] = r
    if r != Fraction(x):
        SNAP_LOG[repr(x)] = str(r)
    return r


# ----------------------------------------------------------------------------------------------
class Term:
    __slots__ = ("op", "args", "id", "_nf", "_z3")
    _tab = {}
    _cnt = 0

    def __repr__(self):
        return tstr(self)


def _mk(op, args):
    key = (op,) + tuple(a.id if isinstance(a, Term) else a for a in args)
    t = Term._tab.get(key)
    if t is None:
        t = Term()
        t.op = op
        t.args = args
        Term._cnt += 1
        t.id = Term._cnt
        t._nf = None
        t._z3 = None
        Term._tab[key] = t
    return t


def reset_terms():
    Term._tab.clear()
    ATOMS.clear()
    ATOM_LIST.clear()
    FRESH[0] = 0
    global CTX
    CTX = Ctx()


def Sym(name):
    return _mk("sym", (name,))


def Const(q):
    if not isinstance(q, Fraction):
        q = Fraction(q)
    return _mk("const", (q,))


ZERO = None
ONE = None


def is_const(t):
    return t.op == "const"


def cval(t):
    return t.args[0]


def lift(x, bits=64):
    if isinstance(x, Term):
        return x
    if isinstance(x, float):
        return Const(snap(x, bits))
    if isinstance(x, (int, Fraction)):
        return Const(Fraction(x))
    raise TypeError("cannot lift %r" % (x,))


def Add(a, b):
    if a.op == "const" and b.op == "const":
        return Const(a.args[0] + b.args[0])
    if a.op == "const" and a.args[0] == 0:
        return b
    if b.op == "const" and b.args[0] == 0:
        return a
    return _mk("add", (a, b))


def Sub(a, b):
    if a.op == "const" and b.op == "const":
        return Const(a.args[0] - b.args[0])
    if b.op == "const" and b.args[0] == 0:
        return a
    if a.op == "const" and a.args[0] == 0:
        return Neg(b)
    if a is b:
        return Const(0)
    return _mk("sub", (a, b))


def Mul(a, b):
    if a.op == "const" and b.op == "const":
        return Const(a.args[0] * b.args[0])
    for x, y in ((a, b), (b, a)):
        if x.op == "const":
            if x.args[0] == 0:
                return x
            if x.args[0] == 1:
                return y
            if x.args[0] == -1:
                return Neg(y)
    return _mk("mul", (a, b))


def Div(a, b):
    if b.op == "const":
        if b.args[0] == 0:
            raise ZeroDivisionError("symbolic division by literal zero")
        if a.op == "const":
            return Const(a.args[0] / b.args[0])
        if b.args[0] == 1:
            return a
    if a.op == "const" and a.args[0] == 0:
        return a
    return _mk("div", (a, b))


def Neg(a):
    if a.op == "const":
        return Const(-a.args[0])
    if a.op == "neg":
        return a.args[0]
    return _mk("neg", (a,))


def Fn(name, *args):
    return _mk("fn", (name,) + tuple(args))


FRESH = [0]


def Fresh(prefix="k"):
    FRESH[0] += 1
    return Sym("%s!%d" % (prefix, FRESH[0]))


def tstr(t, depth=0):
    if depth > 6:
        return "..."
    if t.op == "sym":
        return t.args[0]
    if t.op == "const":
        return str(t.args[0])
    if t.op == "neg":
        return "-(%s)" % tstr(t.args[0], depth + 1)
    if t.op == "fn":
        return "%s(%s)" % (t.args[0], ",".join(tstr(a, depth + 1) for a in t.args[1:]))
    s = {"add": "+", "sub": "-", "mul": "*", "div": "/"}[t.op]
    return "(%s%s%s)" % (tstr(t.args[0], depth + 1), s, tstr(t.args[1], depth + 1))


# ----------------------------------------------------------------------------------------------
# Polynomials: dict {mono: Fraction}; mono = tuple of (atom_index, exponent) sorted by atom_index.
ATOMS = {}  # key -> index
ATOM_LIST = []  # index -> (kind, payload)   kind: 'sym' name | 'fn' (name, argkeys, argterms)


def atom_index(key, info):
    i = ATOMS.get(key)
    if i is None:
        i = len(ATOM_LIST)
        ATOMS[key] = i
        ATOM_LIST.append(info)
    return i


DEADLINE = [None]


def p_const(c):
    c = Fraction(c)
    return {(): c} if c != 0 else {}


def p_atom(i):
    return {((i, 1),): Fraction(1)}


def _tick():
    if DEADLINE[0] is not None:
        import time
        if time.time() > DEADLINE[0]:
            raise PolyTooBig()


def p_add(a, b):
    if len(a) < len(b):
        a, b = b, a
    if len(b) > 500:
        _tick()
    r = dict(a)
    for m, c in b.items():
        v = r.get(m)
        if v is None:
            r[m] = c
        else:
            v = v + c
            if v == 0:
                del r[m]
            else:
                r[m] = v
    return r


def p_neg(a):
    return {m: -c for m, c in a.items()}


def p_sub(a, b):
    return p_add(a, p_neg(b))


def m_mul(m1, m2):
    if not m1:
        return m2
    if not m2:
        return m1
    r = []
    i = j = 0
    n1, n2 = len(m1), len(m2)
    while i < n1 and j < n2:
        a, b = m1[i], m2[j]
        if a[0] == b[0]:
            r.append((a[0], a[1] + b[1]))
            i += 1
            j += 1
        elif a[0] < b[0]:
            r.append(a)
            i += 1
        else:
            r.append(b)
            j += 1
    if i < n1:
        r.extend(m1[i:])
    if j < n2:
        r.extend(m2[j:])
    return tuple(r)


class PolyTooBig(Exception):
    pass


MAX_POLY = 400000


class poly_budget:
    def __init__(self, n):
        self.n = n

    def __enter__(self):
        global MAX_POLY
        self.old = MAX_POLY
        MAX_POLY = self.n

    def __exit__(self, *a):
        global MAX_POLY
        MAX_POLY = self.old


class time_budget:
    """with time_budget(s): polynomial arithmetic raises PolyTooBig once s seconds have elapsed"""

    def __init__(self, seconds):
        self.s = seconds

    def __enter__(self):
        import time
        self.old = DEADLINE[0]
        t = time.time() + self.s
        DEADLINE[0] = t if self.old is None else min(t, self.old)

    def __exit__(self, *a):
        DEADLINE[0] = self.old


def p_mul(a, b):
    if not a or not b:
        return {}
    if len(a) * len(b) > 8 * MAX_POLY:
        raise PolyTooBig()
    if DEADLINE[0] is not None and len(a) * len(b) > 200:
        import time
        if time.time() > DEADLINE[0]:
            raise PolyTooBig()
    r = {}
    for m1, c1 in a.items():
        for m2, c2 in b.items():
            m = m_mul(m1, m2)
            v = r.get(m)
            if v is None:
                r[m] = c1 * c2
            else:
                v = v + c1 * c2
                if v == 0:
                    del r[m]
                else:
                    r[m] = v
    if len(r) > MAX_POLY:
        raise PolyTooBig()
    return r


def p_scale(a, c):
    if c == 0:
        return {}
    return {m: v * c for m, v in a.items()}


def p_pow(a, n):
    r = p_const(1)
    while n:
        if n & 1:
            r = p_mul(r, a)
        a = p_mul(a, a) if n > 1 else a
        n >>= 1
    return r


def p_is_const(a):
    return len(a) == 0 or (len(a) == 1 and () in a)


def p_key(a):
    return frozenset(a.items())


def p_eq(a, b):
    return a == b


def p_vars(a):
    s = set()
    for m in a:
        for v, _ in m:
            s.add(v)
    return s


def p_degree(a):
    return max((sum(e for _, e in m) for m in a), default=0)


def p_subst(a, sub):
    """sub: atom_index -> poly.  Substitute simultaneously."""
    if not any(v in sub for v in p_vars(a)):
        return a
    r = {}
    cache = {}
    for m, c in a.items():
        _tick()
        t = {(): c}
        rest = []
        for v, e in m:
            if v in sub:
                k = (v, e)
                pw = cache.get(k)
                if pw is None:
                    pw = p_pow(sub[v], e)
                    cache[k] = pw
                t = p_mul(t, pw)
            else:
                rest.append((v, e))
        if rest:
            t = p_mul(t, {tuple(rest): Fraction(1)})
        r = p_add(r, t)
    return r


def p_eval(a, vals):
    """vals: atom_index -> number"""
    s = 0
    for m, c in a.items():
        t = c
        for v, e in m:
            t = t * vals[v] ** e
        s = s + t
    return s


def p_str(a, maxn=12):
    if not a:
        return "0"
    out = []
    for k, (m, c) in enumerate(sorted(a.items(), key=lambda kv: (len(kv[0]), kv[0]))):
        if k >= maxn:
            out.append("... (%d monomials)" % len(a))
            break
        ms = "*".join(atom_name(v) + ("^%d" % e if e > 1 else "") for v, e in m)
        out.append("%s%s" % (c, ("*" + ms) if ms else ""))
    return " + ".join(out)


def atom_name(i):
    info = ATOM_LIST[i]
    if info[0] == "sym":
        return info[1]
    return "%s#%d" % (info[1], i)


# ----------------------------------------------------------------------------------------------
# rational functions (num, den): den is a non-zero polynomial; normalised so that a constant den is 1
def rf_norm(n, d):
    if not n:
        return ({}, {(): Fraction(1)})
    if CTX.eager:
        rules = CTX.all_rules()
        if rules:
            n = reduce_poly(n, None, rules)
            if not n:
                return ({}, {(): Fraction(1)})
            if not p_is_const(d):
                d = reduce_poly(d, None, rules)
                if len(d) > 1:
                    q = p_divide(n, d, 4000)
                    if q is not None:
                        return (q, {(): Fraction(1)})
    if p_is_const(d):
        c = d[()]
        if c != 1:
            n = p_scale(n, 1 / c)
        return (n, {(): Fraction(1)})
    if len(d) > 1 and CTX.auto_rules:
        # express polynomial factors of the denominator that are arguments of existing sqrt atoms as theta^2
        # (keeps denominators monomial so that sums use least common multiples instead of products)
        for (at, k, arg) in CTX.auto_rules:
            if len(arg) < 2:
                continue
            mult = {}
            while len(d) > 1:
                q = p_divide(d, arg)
                if q is None:
                    break
                d = q
                mult[at] = mult.get(at, 0) + 2
            if mult:
                d = p_mul(d, {tuple(sorted(mult.items())): Fraction(1)})
            if len(d) == 1:
                break
    # cancel common monomial content
    if len(d) == 1:
        (dm, dc), = d.items()
        if dc != 1:
            n = p_scale(n, 1 / dc)
            d = {dm: Fraction(1)}
        # gcd of monomial dm with all monomials of n
        g = dict(dm)
        for m in n:
            mm = dict(m)
            for v in list(g):
                e = min(g[v], mm.get(v, 0))
                if e == 0:
                    del g[v]
                else:
                    g[v] = e
            if not g:
                break
        if g:
            def divm(m):
                r = []
                for v, e in m:
                    e2 = e - g.get(v, 0)
                    if e2:
                        r.append((v, e2))
                return tuple(r)
            n = {divm(m): c for m, c in n.items()}
            d = {divm(dm): Fraction(1)}
            if p_is_const(d):
                return (n, {(): Fraction(1)})
    return (n, d)


def cancel_content(n, d):
    """divide numerator and denominator by their common monomial content"""
    if not n or not d:
        return n, d
    g = None
    for p in (n, d):
        for m in p:
            mm = dict(m)
            if g is None:
                g = mm
            else:
                for v in list(g):
                    e = min(g[v], mm.get(v, 0))
                    if e == 0:
                        del g[v]
                    else:
                        g[v] = e
            if not g:
                return n, d
    def divm(m):
        return tuple((v, e - g.get(v, 0)) for v, e in m if e - g.get(v, 0))
    return {divm(m): c for m, c in n.items()}, {divm(m): c for m, c in d.items()}


def rf_add(a, b):
    (n1, d1), (n2, d2) = a, b
    if d1 == d2:
        return rf_norm(p_add(n1, n2), d1)
    if p_is_const(d1):
        return rf_norm(p_add(p_mul(n1, d2), n2), d2)
    if p_is_const(d2):
        return rf_norm(p_add(n1, p_mul(n2, d1)), d1)
    # monomial denominators -> lcm
    if len(d1) == 1 and len(d2) == 1:
        (m1, _), = d1.items()
        (m2, _), = d2.items()
        a1, a2 = dict(m1), dict(m2)
        l = dict(a1)
        for v, e in a2.items():
            l[v] = max(l.get(v, 0), e)
        f1 = tuple(sorted((v, l[v] - a1.get(v, 0)) for v in l if l[v] - a1.get(v, 0)))
        f2 = tuple(sorted((v, l[v] - a2.get(v, 0)) for v in l if l[v] - a2.get(v, 0)))
        lm = tuple(sorted(l.items()))
        n = p_add(p_mul(n1, {f1: Fraction(1)}), p_mul(n2, {f2: Fraction(1)}))
        return rf_norm(n, {lm: Fraction(1)})
    return rf_norm(p_add(p_mul(n1, d2), p_mul(n2, d1)), p_mul(d1, d2))


def rf_mul(a, b):
    (n1, d1), (n2, d2) = a, b
    return rf_norm(p_mul(n1, n2), p_mul(d1, d2))


def rf_div(a, b):
    (n1, d1), (n2, d2) = a, b
    if not n2:
        raise ZeroDivisionError("division by identically-zero term")
    return rf_norm(p_mul(n1, d2), p_mul(d1, n2))


def rf_neg(a):
    return (p_neg(a[0]), a[1])


def rf_key(a):
    return (p_key(a[0]), p_key(a[1]))



# ----------------------------------------------------------------------------------------------
# rewrite context (per job; reset by reset_terms): representation-constraint rules and sign facts used to
# canonicalise the ARGUMENTS of function atoms (sqrt of perfect squares, trig of atan2, atan2 of sin/cos)
class Ctx:
    def __init__(self):
        self.rules = []  # user rules (atom, power, replacement poly) e.g. unit norm
        self.auto_rules = []  # r^2 -> arg for sqrt atoms with polynomial argument
        self.nonneg = set()  # atom indices known >= 0 (sqrt atoms automatically)
        self.principal = set()  # rf_key(nf(u)) of terms u with u in (-pi, pi]  (so atan2(sin u, cos u) = u)
        self.log = []  # axiom instances used
        self.eager = False  # reduce modulo the rules after every arithmetic step (keeps |q|^2 -> 1 etc. from piling up)

    def all_rules(self):
        return self.auto_rules + self.rules


CTX = Ctx()


def reduce_poly(p, subst, rules, maxiter=60):
    """normal form modulo rewrite rules atom^k -> poly (pairwise coprime pure-power leading terms)"""
    if subst:
        p = p_subst(p, subst)
    if not rules:
        return p
    rmap = {a: (k, rep) for a, k, rep in rules}
    powc = {}
    for _ in range(maxiter):
        keep = {}
        groups = {}
        for m, c in p.items():
            hit = None
            for v, e in m:
                r = rmap.get(v)
                if r is not None and e >= r[0]:
                    hit = (v, e)
                    break
            if hit is None:
                keep[m] = c
                continue
            v, e = hit
            k = rmap[v][0]
            rest = tuple(x for x in ((a, b) if a != v else (a, e % k) for a, b in m) if x[1] > 0)
            g = groups.setdefault((v, e // k), {})
            g[rest] = g.get(rest, 0) + c
        if not groups:
            break
        out = keep
        for (v, q), coeff in groups.items():
            pw = powc.get((v, q))
            if pw is None:
                pw = p_pow(rmap[v][1], q)
                powc[(v, q)] = pw
            out = p_add(out, p_mul({m: c for m, c in coeff.items() if c != 0}, pw))
        p = out
    return p


def _lead(p):
    return max(p)  # lexicographic on (atom, exp) tuples


def m_div(m1, m2):
    """m1 / m2 or None"""
    d = dict(m1)
    for v, e in m2:
        if d.get(v, 0) < e:
            return None
        d[v] -= e
        if d[v] == 0:
            del d[v]
    return tuple(sorted(d.items()))


def p_divide(n, d, maxsteps=20000):
    """exact quotient n/d or None"""
    if not d:
        return None
    if p_is_const(d):
        return p_scale(n, 1 / d[()])
    # order: graded by total degree then lex, to guarantee termination
    def key(m):
        return (sum(e for _, e in m), m)
    ld = max(d, key=key)
    cd = d[ld]
    q = {}
    r = dict(n)
    steps = 0
    while r:
        steps += 1
        if steps > maxsteps:
            return None
        lr = max(r, key=key)
        qm = m_div(lr, ld)
        if qm is None:
            return None
        qc = r[lr] / cd
        q[qm] = q.get(qm, 0) + qc
        r = p_sub(r, p_mul({qm: qc}, d))
    return {m: c for m, c in q.items() if c != 0}


def canon_rf(rf):
    """reduce numerator and denominator modulo the context rules and cancel exactly when possible"""
    n, d = rf
    rules = CTX.all_rules()
    if rules:
        n = reduce_poly(n, None, rules)
        d = reduce_poly(d, None, rules)
    if not n:
        return ({}, p_const(1))
    if not p_is_const(d):
        q = p_divide(n, d)
        if q is not None:
            return (q, p_const(1))
        if len(n) >= 1 and len(d) > 1:
            q2 = p_divide(d, n)
            if q2 is not None and not p_is_const(n):
                return (p_const(1), q2)
    return rf_norm(n, d)


def _is_square_q(q):
    from math import isqrt
    if q < 0:
        return None
    a, b = q.numerator, q.denominator
    ra, rb = isqrt(a), isqrt(b)
    if ra * ra == a and rb * rb == b:
        return Fraction(ra, rb)
    return None


def _sqrt_simplify(rf):
    """sqrt of c*m1/(c2*m2) with even exponents over atoms known nonneg -> rational monomial, else None"""
    n, d = rf
    if len(n) != 1 or len(d) != 1:
        return None
    (mn, cn), = n.items()
    (md, cd), = d.items()
    r = _is_square_q(cn / cd)
    if r is None:
        return None
    def half(m):
        out = []
        for v, e in m:
            if e % 2:
                return None
            if (e // 2) % 2 == 1 and v not in CTX.nonneg:
                return None
            out.append((v, e // 2))
        return tuple(out)
    hn, hd = half(mn), half(md)
    if hn is None or hd is None:
        return None
    return ({hn: r}, {hd: Fraction(1)})


def _chebyshev(k, S, C, rfm=False):
    """(sin(kx), cos(kx)) from S=sin x, C=cos x given as rational functions"""
    neg = k < 0
    k = abs(k)
    one = (p_const(1), p_const(1))
    zero = ({}, p_const(1))
    if k == 0:
        return zero, one
    s_prev, s_cur = zero, S
    c_prev, c_cur = one, C
    two = (p_const(2), p_const(1))
    for _ in range(k - 1):
        s_prev, s_cur = s_cur, rf_add(rf_mul(two, rf_mul(C, s_cur)), rf_neg(s_prev))
        c_prev, c_cur = c_cur, rf_add(rf_mul(two, rf_mul(C, c_cur)), rf_neg(c_prev))
    return (rf_neg(s_cur) if neg else s_cur), c_cur


def _fn_nf(u, args_rf):
    """normal form of a function application with canonicalised arguments; may simplify instead of creating an atom"""
    name = u.args[0]
    if name == "sqrt":
        a = args_rf[0]
        if p_is_const(a[0]) and p_is_const(a[1]):
            q = (a[0].get((), Fraction(0))) / a[1][()]
            r = _is_square_q(q)
            if r is not None:
                return (p_const(r), p_const(1))
        r = _sqrt_simplify(a)
        if r is not None:
            CTX.log.append("sqrt of a perfect square of non-negative atoms simplified")
            return r
    if name in ("sin", "cos", "exp") and args_rf[0][0]:
        # canonical sign of the argument: sin(-u) = -sin u, cos(-u) = cos u, exp(-u) = 1/exp(u)
        n, d = args_rf[0]
        lead = n[min(n)] / d[min(d)]
        if lead < 0:
            pos = Fn(name, rf_to_term((p_neg(n), d)))
            r = nf(pos)
            if name == "sin":
                return rf_neg(r)
            if name == "cos":
                return r
            return rf_div((p_const(1), p_const(1)), r)
    if name in ("sin", "cos"):
        n, d = args_rf[0]
        if not n:
            return (p_const(0 if name == "sin" else 1), p_const(1))
        if p_is_const(d) and len(n) == 1:
            (m, q), = n.items()
            q = q / d[()]
            if len(m) == 1 and m[0][1] == 1:
                info = ATOM_LIST[m[0][0]]
                if info[0] == "fn" and info[1] == "atan2" and q.denominator == 1:
                    y, x = info[2]
                    yr, xr = canon_rf(nf(y)), canon_rf(nf(x))
                    rho = nf(Fn("sqrt", Add(Mul(x, x), Mul(y, y))))
                    S = rf_div(yr, rho)
                    C = rf_div(xr, rho)
                    sk, ck = _chebyshev(int(q), S, C)
                    CTX.log.append("sin/cos(k*atan2(y,x)) expanded through y/rho, x/rho")
                    return canon_rf(sk if name == "sin" else ck)
    if name == "atan2":
        (yn, yd), (xn, xd) = args_rf
        if p_is_const(yd) and p_is_const(xd) and len(yn) == 1 and len(xn) == 1:
            (ym, yc), = yn.items()
            (xm, xc), = xn.items()
            if len(ym) == 1 and len(xm) == 1 and ym[0][1] == 1 and xm[0][1] == 1 and yc == yd[()] and xc == xd[()]:
                iy, ix = ATOM_LIST[ym[0][0]], ATOM_LIST[xm[0][0]]
                if iy[0] == "fn" and ix[0] == "fn" and iy[1] == "sin" and ix[1] == "cos":
                    uy, ux = iy[2][0], ix[2][0]
                    if rf_key(nf(uy)) == rf_key(nf(ux)) and rf_key(nf(uy)) in CTX.principal:
                        CTX.log.append("atan2(sin u, cos u) = u for u in (-pi, pi]")
                        return nf(uy)
    keys = tuple(rf_key(a) for a in args_rf)
    argterms = tuple(rf_to_term(a) for a in args_rf)
    i = atom_index(("fn", name) + keys, ("fn", name, argterms))
    if name == "sqrt":
        CTX.nonneg.add(i)
        n, d = args_rf[0]
        if p_is_const(d):
            CTX.auto_rules.append((i, 2, p_scale(n, 1 / d[()])))
    if name == "atan2" and rf_nonneg(args_rf[0]):
        CTX.nonneg.add(i)  # atan2(y, x) in [0, pi] for y >= 0
    return (p_atom(i), p_const(1))


def rf_nonneg(rf):
    """syntactic: a single monomial with positive coefficient whose odd-power atoms are known non-negative"""
    n, d = rf
    if not n:
        return True
    if len(n) != 1 or len(d) != 1:
        return False
    (mn, cn), = n.items()
    (md, cd), = d.items()
    if cn / cd < 0:
        return False
    for m in (mn, md):
        for v, e in m:
            if e % 2 and v not in CTX.nonneg:
                return False
    return True


def nf(t: Term):
    """Rational-function normal form of a term (memoised, iterative post-order)."""
    if t._nf is not None:
        return t._nf
    stack = [t]
    while stack:
        u = stack[-1]
        if u._nf is not None:
            stack.pop()
            continue
        pend = [a for a in u.args if isinstance(a, Term) and a._nf is None]
        if pend:
            stack.extend(pend)
            continue
        stack.pop()
        op = u.op
        if op == "const":
            r = (p_const(u.args[0]), p_const(1))
        elif op == "sym":
            i = atom_index(("sym", u.args[0]), ("sym", u.args[0]))
            r = (p_atom(i), p_const(1))
        elif op == "fn":
            r = _fn_nf(u, [canon_rf(a._nf) for a in u.args[1:]])
        elif op == "neg":
            r = rf_neg(u.args[0]._nf)
        elif op == "add":
            r = rf_add(u.args[0]._nf, u.args[1]._nf)
        elif op == "sub":
            r = rf_add(u.args[0]._nf, rf_neg(u.args[1]._nf))
        elif op == "mul":
            r = rf_mul(u.args[0]._nf, u.args[1]._nf)
        elif op == "div":
            r = rf_div(u.args[0]._nf, u.args[1]._nf)
        else:
            raise ValueError(op)
        u._nf = r
    return t._nf


def atom_term(i):
    """A Term denoting atom i."""
    info = ATOM_LIST[i]
    if info[0] == "sym":
        return Sym(info[1])
    return Fn(info[1], *info[2])


def poly_to_term(p):
    acc = Const(0)
    for m, c in p.items():
        t = Const(c)
        for v, e in m:
            at = atom_term(v)
            for _ in range(e):
                t = Mul(t, at)
        acc = Add(acc, t)
    return acc


def rf_to_term(r):
    n, d = r
    if p_is_const(d):
        return poly_to_term(n)
    return Div(poly_to_term(n), poly_to_term(d))


# ----------------------------------------------------------------------------------------------
# concrete evaluation of a term (floats or mpmath) -- for replay / validation
def evaluate(t: Term, env, lib=None, cache=None):
    """env: symbol name -> number.  lib: module-like with sqrt, sin, cos, tan, atan2, exp, log (math or mpmath)."""
    import math as _m
    lib = lib or _m
    cache = {} if cache is None else cache
    stack = [t]
    while stack:
        u = stack[-1]
        if u.id in cache:
            stack.pop()
            continue
        pend = [a for a in u.args if isinstance(a, Term) and a.id not in cache]
        if pend:
            stack.extend(pend)
            continue
        stack.pop()
        op = u.op
        if op == "const":
            q = u.args[0]
            v = (lib.mpf(q.numerator) / lib.mpf(q.denominator)) if hasattr(lib, "mpf") else float(q)
        elif op == "sym":
            v = env[u.args[0]]
        elif op == "neg":
            v = -cache[u.args[0].id]
        elif op == "add":
            v = cache[u.args[0].id] + cache[u.args[1].id]
        elif op == "sub":
            v = cache[u.args[0].id] - cache[u.args[1].id]
        elif op == "mul":
            v = cache[u.args[0].id] * cache[u.args[1].id]
        elif op == "div":
            v = cache[u.args[0].id] / cache[u.args[1].id]
        elif op == "fn":
            name = u.args[0]
            a = [cache[x.id] for x in u.args[1:]]
            if name.startswith("uf:"):
                v = env[(name,) + tuple(a)] if (name,) + tuple(a) in env else env[name](*a)
            elif name == "pow":
                v = a[0] ** a[1]
            else:
                v = getattr(lib, name)(*a)
        else:
            raise ValueError(op)
        cache[u.id] = v
    return cache[t.id]


def substitute(t: Term, mapping):
    """replace symbols by terms (mapping: symbol name -> Term); memoised post-order"""
    cache = {}
    stack = [t]
    while stack:
        u = stack[-1]
        if u.id in cache:
            stack.pop()
            continue
        pend = [a for a in u.args if isinstance(a, Term) and a.id not in cache]
        if pend:
            stack.extend(pend)
            continue
        stack.pop()
        op = u.op
        if op == "sym":
            r = mapping.get(u.args[0], u)
        elif op == "const":
            r = u
        elif op == "neg":
            r = Neg(cache[u.args[0].id])
        elif op == "add":
            r = Add(cache[u.args[0].id], cache[u.args[1].id])
        elif op == "sub":
            r = Sub(cache[u.args[0].id], cache[u.args[1].id])
        elif op == "mul":
            r = Mul(cache[u.args[0].id], cache[u.args[1].id])
        elif op == "div":
            r = Div(cache[u.args[0].id], cache[u.args[1].id])
        elif op == "fn":
            r = Fn(u.args[0], *[cache[a.id] for a in u.args[1:]])
        else:
            raise ValueError(op)
        cache[u.id] = r
    return cache[t.id]


def symbols_of(t: Term, acc=None):
    acc = set() if acc is None else acc
    seen = set()
    stack = [t]
    while stack:
        u = stack.pop()
        if u.id in seen:
            continue
        seen.add(u.id)
        if u.op == "sym":
            acc.add(u.args[0])
        for a in u.args:
            if isinstance(a, Term):
                stack.append(a)
    return acc


def diff(t: Term, name: str):
    """symbolic partial derivative d t / d Sym(name) (memoised post-order)"""
    cache = {}
    stack = [t]
    zero, one = Const(0), Const(1)
    while stack:
        u = stack[-1]
        if u.id in cache:
            stack.pop()
            continue
        pend = [a for a in u.args if isinstance(a, Term) and a.id not in cache]
        if pend:
            stack.extend(pend)
            continue
        stack.pop()
        op = u.op
        if op == "sym":
            r = one if u.args[0] == name else zero
        elif op == "const":
            r = zero
        elif op == "neg":
            r = Neg(cache[u.args[0].id])
        elif op == "add":
            r = Add(cache[u.args[0].id], cache[u.args[1].id])
        elif op == "sub":
            r = Sub(cache[u.args[0].id], cache[u.args[1].id])
        elif op == "mul":
            a, b = u.args
            r = Add(Mul(cache[a.id], b), Mul(a, cache[b.id]))
        elif op == "div":
            a, b = u.args
            da, db = cache[a.id], cache[b.id]
            if db.op == "const" and db.args[0] == 0:
                r = Div(da, b)
            else:
                r = Div(Sub(Mul(da, b), Mul(a, db)), Mul(b, b))
        elif op == "fn":
            fn = u.args[0]
            a = u.args[1:]
            d = [cache[x.id] for x in a]
            if all(x.op == "const" and x.args[0] == 0 for x in d):
                r = zero
            elif fn == "sqrt":
                r = Div(d[0], Mul(Const(2), u))
            elif fn == "sin":
                r = Mul(Fn("cos", a[0]), d[0])
            elif fn == "cos":
                r = Neg(Mul(Fn("sin", a[0]), d[0]))
            elif fn == "exp":
                r = Mul(u, d[0])
            elif fn == "log":
                r = Div(d[0], a[0])
            elif fn == "atan2":
                y, x = a
                r = Div(Sub(Mul(x, d[0]), Mul(y, d[1])), Add(Mul(x, x), Mul(y, y)))
            else:
                raise ValueError("diff of " + fn)
        else:
            raise ValueError(op)
        cache[u.id] = r
    return cache[t.id]
