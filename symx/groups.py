"""Documented matrix forms of the groups (DESIGN 3, 'documented matrices').  Written from the class
documentation in include/smooth/detail/*.hpp; nothing here calls into smooth."""
from fractions import Fraction
from . import terms as T
from .terms import Term, Const, Add, Sub, Mul, Div, Neg, Sym, Fn
from .interp import Cond

Z0 = lambda: Const(0)
O1 = lambda: Const(1)


# ---------------------------------------------------------------- small matrix algebra over Terms
def zeros(n, m):
    return [[Const(0) for _ in range(m)] for _ in range(n)]


def eye(n):
    return [[Const(1 if i == j else 0) for j in range(n)] for i in range(n)]


def mm(A, B):
    n, k, m = len(A), len(B), len(B[0])
    out = []
    for i in range(n):
        row = []
        for j in range(m):
            acc = Const(0)
            for l in range(k):
                acc = Add(acc, Mul(A[i][l], B[l][j]))
            row.append(acc)
        out.append(row)
    return out


def madd(A, B):
    return [[Add(a, b) for a, b in zip(ra, rb)] for ra, rb in zip(A, B)]


def msub(A, B):
    return [[Sub(a, b) for a, b in zip(ra, rb)] for ra, rb in zip(A, B)]


def mscale(c, A):
    return [[Mul(c, a) for a in r] for r in A]


def mT(A):
    return [list(r) for r in zip(*A)]


def mv(A, v):
    return [sum_terms([Mul(a, x) for a, x in zip(r, v)]) for r in A]


def sum_terms(ts):
    acc = Const(0)
    for t in ts:
        acc = Add(acc, t)
    return acc


def dot(a, b):
    return sum_terms([Mul(x, y) for x, y in zip(a, b)])


def set_block(M, i0, j0, B):
    for i, r in enumerate(B):
        for j, x in enumerate(r):
            M[i0 + i][j0 + j] = x


def block(M, i0, j0, n, m):
    return [[M[i0 + i][j0 + j] for j in range(m)] for i in range(n)]


def flat(M):
    return [x for r in M for x in r]


def skew(w):
    x, y, z = w
    return [[Const(0), Neg(z), y], [z, Const(0), Neg(x)], [Neg(y), x, Const(0)]]


def quat_R(q):
    x, y, z, w = q
    two, one = Const(2), Const(1)
    return [[Sub(one, Mul(two, Add(Mul(y, y), Mul(z, z)))), Mul(two, Sub(Mul(x, y), Mul(z, w))), Mul(two, Add(Mul(x, z), Mul(y, w)))],
            [Mul(two, Add(Mul(x, y), Mul(z, w))), Sub(one, Mul(two, Add(Mul(x, x), Mul(z, z)))), Mul(two, Sub(Mul(y, z), Mul(x, w)))],
            [Mul(two, Sub(Mul(x, z), Mul(y, w))), Mul(two, Add(Mul(y, z), Mul(x, w))), Sub(one, Mul(two, Add(Mul(x, x), Mul(y, y))))]]


def atom_of(sym_term):
    (m, _), = T.nf(sym_term)[0].items()
    return m[0][0]


def unit_rule(vec):
    """rewrite rule last^2 -> 1 - sum(others^2) for a unit-norm coefficient vector of symbols"""
    rep = T.p_const(1)
    for c in vec[:-1]:
        rep = T.p_sub(rep, T.p_pow(T.nf(c)[0], 2))
    return (atom_of(vec[-1]), 2, rep)


# ---------------------------------------------------------------- group specs
class Group:
    name = ""
    cpp = ""
    rep = dof = dim = 0
    act = 0  # dimension of vector the group acts on (0: none)
    rot = ()  # tangent indices of the rotation part
    commutative = False
    has_d2 = True

    def docM(self, g):
        raise NotImplementedError

    def hat(self, a):
        raise NotImplementedError

    def unit_slices(self):
        """list of index tuples of coefficient sub-vectors with unit norm (last one eliminated by rule)"""
        return []

    def vee(self, A):
        """inverse of hat on the documented algebra, read off from the positions where hat places each coordinate"""
        a = syms("vee!", self.dof)
        H = self.hat(a)
        out = [None] * self.dof
        for i, row in enumerate(H):
            for j, e in enumerate(row):
                for k in range(self.dof):
                    if out[k] is None:
                        if e is a[k]:
                            out[k] = A[i][j]
                        elif e.op == "neg" and e.args[0] is a[k]:
                            out[k] = Neg(A[i][j])
        assert all(o is not None for o in out)
        return out

    def rules(self, g):
        return [unit_rule([g[i] for i in sl]) for sl in self.unit_slices()]

    def canon(self, g):
        """canonical-sign assumptions (q_w >= 0) as (Cond, polarity) list"""
        return []

    def act_apply(self, g, v):
        """documented action on a point"""
        M = self.docM(g)
        n = self.act
        hv = list(v) + [Const(1)] * (self.dim - n)
        r = mv(M, hv)
        return r[:n]

    def random_element(self, rnd, scale=1.0):
        raise NotImplementedError

    def cpp_include(self):
        return ""


def _rand_unit(rnd, n, positive_last=True):
    import math
    while True:
        q = [rnd.gauss(0, 1) for _ in range(n)]
        s = math.sqrt(sum(x * x for x in q))
        if s > 1e-3:
            break
    q = [x / s for x in q]
    if positive_last and q[-1] < 0:
        q = [-x for x in q]
    return q


class SO2(Group):
    name, cpp, rep, dof, dim, act, rot = "SO2", "smooth::SO2d", 2, 1, 2, 2, (0,)
    commutative = True

    def docM(self, g):
        qz, qw = g
        return [[qw, Neg(qz)], [qz, qw]]

    def hat(self, a):
        return [[Const(0), Neg(a[0])], [a[0], Const(0)]]

    def unit_slices(self):
        return [(0, 1)]

    def random_element(self, rnd, scale=1.0):
        return _rand_unit(rnd, 2, False)


class SO3(Group):
    name, cpp, rep, dof, dim, act, rot = "SO3", "smooth::SO3d", 4, 3, 3, 3, (0, 1, 2)

    def docM(self, g):
        return quat_R(g)

    def hat(self, a):
        return skew(a)

    def unit_slices(self):
        return [(0, 1, 2, 3)]

    def canon(self, g):
        return [(Cond("cmp", g[3], Const(0), "oge"), True)]

    def random_element(self, rnd, scale=1.0):
        return _rand_unit(rnd, 4)


class SE2(Group):
    name, cpp, rep, dof, dim, act, rot = "SE2", "smooth::SE2d", 4, 3, 3, 2, (2,)

    def docM(self, g):
        x, y, qz, qw = g
        return [[qw, Neg(qz), x], [qz, qw, y], [Const(0), Const(0), Const(1)]]

    def hat(self, a):
        vx, vy, w = a
        return [[Const(0), Neg(w), vx], [w, Const(0), vy], [Const(0), Const(0), Const(0)]]

    def unit_slices(self):
        return [(2, 3)]

    def random_element(self, rnd, scale=1.0):
        return [rnd.uniform(-scale, scale), rnd.uniform(-scale, scale)] + _rand_unit(rnd, 2, False)


class SE3(Group):
    name, cpp, rep, dof, dim, act, rot = "SE3", "smooth::SE3d", 7, 6, 4, 3, (3, 4, 5)

    def docM(self, g):
        M = eye(4)
        set_block(M, 0, 0, quat_R(g[3:7]))
        for i in range(3):
            M[i][3] = g[i]
        return M

    def hat(self, a):
        M = zeros(4, 4)
        set_block(M, 0, 0, skew(a[3:6]))
        for i in range(3):
            M[i][3] = a[i]
        return M

    def unit_slices(self):
        return [(3, 4, 5, 6)]

    def canon(self, g):
        return [(Cond("cmp", g[6], Const(0), "oge"), True)]

    def random_element(self, rnd, scale=1.0):
        return [rnd.uniform(-scale, scale) for _ in range(3)] + _rand_unit(rnd, 4)


class C1(Group):
    name, cpp, rep, dof, dim, act, rot = "C1", "smooth::C1d", 2, 2, 2, 2, (1,)
    commutative = True

    def docM(self, g):
        a, b = g
        return [[b, Neg(a)], [a, b]]

    def hat(self, t):
        s, w = t
        return [[s, Neg(w)], [w, s]]

    def random_element(self, rnd, scale=1.0):
        import math
        k = math.exp(rnd.uniform(-1, 1))
        q = _rand_unit(rnd, 2, False)
        return [k * q[0], k * q[1]]


class Galilei(Group):
    name, cpp, rep, dof, dim, act, rot = "Galilei", "smooth::Galileid", 11, 10, 5, 4, (7, 8, 9)
    has_d2 = False

    def docM(self, g):
        M = eye(5)
        set_block(M, 0, 0, quat_R(g[7:11]))
        for i in range(3):
            M[i][3] = g[i]
            M[i][4] = g[3 + i]
        M[3][4] = g[6]
        return M

    def hat(self, a):
        # tangent of the documented group matrix [R v p; 0 1 tau; 0 0 1]  (the class comment's last row
        # "[0 0 0 0 1]" is a typo: hat(0) must be 0)
        M = zeros(5, 5)
        set_block(M, 0, 0, skew(a[7:10]))
        for i in range(3):
            M[i][3] = a[i]
            M[i][4] = a[3 + i]
        M[3][4] = a[6]
        return M

    def unit_slices(self):
        return [(7, 8, 9, 10)]

    def canon(self, g):
        return [(Cond("cmp", g[10], Const(0), "oge"), True)]

    def random_element(self, rnd, scale=1.0):
        return [rnd.uniform(-scale, scale) for _ in range(7)] + _rand_unit(rnd, 4)


class SEK3(Group):
    act = 0
    has_d2 = False

    def __init__(self, K):
        self.K = K
        self.name = "SE_%d_3" % K
        self.cpp = "smooth::SE_K_3<double, %d>" % K
        self.rep = 3 * K + 4
        self.dof = 3 * K + 3
        self.dim = 3 + K
        self.rot = (3 * K, 3 * K + 1, 3 * K + 2)

    def docM(self, g):
        K = self.K
        M = eye(3 + K)
        set_block(M, 0, 0, quat_R(g[3 * K:3 * K + 4]))
        for k in range(K):
            for i in range(3):
                M[i][3 + k] = g[3 * k + i]
        return M

    def hat(self, a):
        K = self.K
        M = zeros(3 + K, 3 + K)
        set_block(M, 0, 0, skew(a[3 * K:3 * K + 3]))
        for k in range(K):
            for i in range(3):
                M[i][3 + k] = a[3 * k + i]
        return M

    def unit_slices(self):
        K = self.K
        return [(3 * K, 3 * K + 1, 3 * K + 2, 3 * K + 3)]

    def canon(self, g):
        return [(Cond("cmp", g[3 * self.K + 3], Const(0), "oge"), True)]

    def random_element(self, rnd, scale=1.0):
        return [rnd.uniform(-scale, scale) for _ in range(3 * self.K)] + _rand_unit(rnd, 4)


class Tn(Group):
    commutative = True
    act = 0

    def __init__(self, N):
        self.N = N
        self.name = "T%d" % N
        self.cpp = "Eigen::Matrix<double, %d, 1>" % N
        self.rep = self.dof = N
        self.dim = N + 1
        self.rot = ()

    def docM(self, g):
        M = eye(self.N + 1)
        for i in range(self.N):
            M[i][self.N] = g[i]
        return M

    def hat(self, a):
        M = zeros(self.N + 1, self.N + 1)
        for i in range(self.N):
            M[i][self.N] = a[i]
        return M

    def random_element(self, rnd, scale=1.0):
        return [rnd.uniform(-scale, scale) for _ in range(self.N)]


class Bundle(Group):
    act = 0

    def __init__(self, parts):
        self.parts = parts
        self.name = "B_" + "_".join(p.name for p in parts)
        self.cpp = "smooth::Bundle<%s>" % ", ".join(p.cpp for p in parts)
        self.rep = sum(p.rep for p in parts)
        self.dof = sum(p.dof for p in parts)
        self.dim = sum(p.dim for p in parts)
        self.commutative = all(p.commutative for p in parts)
        self.has_d2 = all(p.has_d2 for p in parts)
        r = []
        o = 0
        for p in parts:
            r += [o + i for i in p.rot]
            o += p.dof
        self.rot = tuple(r)

    def offsets(self):
        ro = do = mo = 0
        out = []
        for p in self.parts:
            out.append((ro, do, mo))
            ro += p.rep
            do += p.dof
            mo += p.dim
        return out

    def docM(self, g):
        M = zeros(self.dim, self.dim)
        for p, (ro, do, mo) in zip(self.parts, self.offsets()):
            set_block(M, mo, mo, p.docM(g[ro:ro + p.rep]))
        return M

    def hat(self, a):
        M = zeros(self.dim, self.dim)
        for p, (ro, do, mo) in zip(self.parts, self.offsets()):
            set_block(M, mo, mo, p.hat(a[do:do + p.dof]))
        return M

    def unit_slices(self):
        out = []
        for p, (ro, do, mo) in zip(self.parts, self.offsets()):
            for sl in p.unit_slices():
                out.append(tuple(ro + i for i in sl))
        return out

    def canon(self, g):
        out = []
        for p, (ro, do, mo) in zip(self.parts, self.offsets()):
            out += p.canon(g[ro:ro + p.rep])
        return out

    def random_element(self, rnd, scale=1.0):
        out = []
        for p in self.parts:
            out += p.random_element(rnd, scale)
        return out


def syms(prefix, n):
    return [Sym("%s%d" % (prefix, i)) for i in range(n)]


BASIC = {"SO2": SO2(), "SO3": SO3(), "SE2": SE2(), "SE3": SE3(), "C1": C1(), "Galilei": Galilei(),
         "SE_1_3": SEK3(1), "SE_2_3": SEK3(2), "SE_3_3": SEK3(3)}
