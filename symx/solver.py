"""Obligations -> z3 (DESIGN 2.3).  Identity obligations are reduced modulo the representation
constraints (a Groebner basis with pairwise coprime pure-power leading terms) and then handed to
the solver, which has the last word; bound obligations use the monomial LRA relaxation."""
import time, math
from fractions import Fraction
import z3
from . import terms as T
from .terms import Term
from .interp import Cond

import os, sys
sys.set_int_max_str_digits(0)
DEBUG = bool(os.environ.get('SYMX_DEBUG'))
z3.set_param('memory_max_size', 6000)   # MB: a query that would exceed it comes back unknown/exception (= undecided)
PI_LO = Fraction(3141592653589793, 10**15)
PI_HI = Fraction(3141592653589794, 10**15)

STATS = {"queries": 0, "time": 0.0, "sat": 0, "unsat": 0, "unknown": 0}


def zfrac(q):
    q = Fraction(q)
    if q.denominator == 1:
        return z3.RealVal(q.numerator)
    return z3.RealVal(q.numerator) / z3.RealVal(q.denominator)


class Z:
    """per-process z3 conversion context"""

    def __init__(self):
        self.avars = {}
        self.pi = z3.Real("pi")

    def atom(self, i):
        v = self.avars.get(i)
        if v is None:
            v = z3.Real("a%d_%s" % (i, T.atom_name(i).replace("#", "_")[:24]))
            self.avars[i] = v
        return v

    def poly(self, p):
        if not p:
            return z3.RealVal(0)
        terms = []
        for m, c in p.items():
            t = None
            for v, e in m:
                x = self.atom(v)
                for _ in range(e):
                    t = x if t is None else t * x
            if t is None:
                terms.append(zfrac(c))
            elif c == 1:
                terms.append(t)
            else:
                terms.append(zfrac(c) * t)
        return z3.Sum(terms) if len(terms) > 1 else terms[0]

    def cond(self, c, pol=True):
        """z3 formula for symbolic condition c having truth value pol; returns (formula, side_conditions)"""
        if isinstance(c, int):
            return z3.BoolVal(bool(c) == pol), []
        if c.kind == "not":
            return self.cond(c.a, not pol)
        if c.kind in ("and", "or", "xor"):
            fa, sa = self.cond(c.a, True)
            fb, sb = self.cond(c.b, True)
            f = {"and": z3.And(fa, fb), "or": z3.Or(fa, fb), "xor": z3.Xor(fa, fb)}[c.kind]
            return (f if pol else z3.Not(f)), sa + sb
        n, d = T.nf(T.Sub(c.a, c.b))
        side = []
        if T.p_is_const(d):
            e = self.poly(n)
        else:
            # sign(n/d) = sign(n*d) when d != 0
            e = self.poly(n) * self.poly(d)
            side.append(self.poly(d) != 0)
        p = c.pred[1:]
        f = {"eq": e == 0, "ne": e != 0, "gt": e > 0, "ge": e >= 0, "lt": e < 0, "le": e <= 0}[p]
        return (f if pol else z3.Not(f)), side


def atom_axioms(z, atoms, extra_pairs=True):
    """Defining constraints of function atoms occurring in a query (DESIGN 2.5)."""
    ax = []
    seen = set()
    todo = list(atoms)
    trig = {}
    while todo:
        i = todo.pop()
        if i in seen:
            continue
        seen.add(i)
        info = T.ATOM_LIST[i]
        if info[0] != "fn":
            continue
        name = info[1]
        args = info[2]
        argnf = [T.nf(a) for a in args]
        for n, d in argnf:
            todo.extend(T.p_vars(n))
            todo.extend(T.p_vars(d))
        x = z.atom(i)
        if name == "sqrt":
            n, d = argnf[0]
            ax.append(x >= 0)
            if T.p_is_const(d):
                ax.append(x * x == z.poly(n))
            else:
                ax.append(x * x * z.poly(d) == z.poly(n))
                ax.append(z.poly(d) != 0)
        elif name in ("sin", "cos"):
            ax.append(x >= -1)
            ax.append(x <= 1)
            trig.setdefault(T.rf_key(argnf[0]), {})[name] = (i, args[0])
            an, ad = argnf[0]
            if T.p_is_const(ad) and T.p_degree(an) <= 1:
                u = z.poly(T.p_scale(an, 1 / ad[()]))
                if name == "sin":   # |sin u| <= |u|
                    ax += [z3.Implies(u >= 0, x <= u), z3.Implies(u <= 0, x >= u)]
                else:               # cos u >= 1 - u^2/2
                    ax.append(2 * x >= 2 - u * u)
        elif name == "atan2":
            # phi = atan2(y, x):  -pi < phi <= pi, sign facts by quadrant (range axioms)
            (yn, yd), (xn, xd) = argnf
            y = z.poly(yn) if T.p_is_const(yd) else z.poly(yn) * z.poly(yd)
            xx = z.poly(xn) if T.p_is_const(xd) else z.poly(xn) * z.poly(xd)
            ax += [x > -z.pi, x <= z.pi]
            # |phi| >= |sin phi| = |y|/rho
            rho = z3.Real("rho_%d" % i)
            ax += [rho >= 0, rho * rho == xx * xx + y * y, z3.Implies(y >= 0, x * rho >= y), z3.Implies(y < 0, x * rho <= y)]
            ax += [z3.Implies(y > 0, z3.And(x > 0, x < z.pi)), z3.Implies(y < 0, z3.And(x < 0, x > -z.pi)),
                   z3.Implies(z3.And(y == 0, xx > 0), x == 0), z3.Implies(z3.And(y == 0, xx < 0), x == z.pi),
                   z3.Implies(xx > 0, z3.And(2 * x < z.pi, 2 * x > -z.pi)),
                   z3.Implies(z3.And(xx < 0, y >= 0), 2 * x > z.pi), z3.Implies(z3.And(xx < 0, y < 0), 2 * x < -z.pi),
                   z3.Implies(z3.And(xx == 0, y > 0), 2 * x == z.pi), z3.Implies(z3.And(xx == 0, y < 0), 2 * x == -z.pi)]
        elif name == "exp":
            ax.append(x > 0)
        elif name.startswith("uf:") or name in ("log", "pow", "asin", "acos", "atan"):
            pass
    # uninterpreted functions: congruence (Ackermann) between applications of the same symbol
    ufs = {}
    for i in seen:
        info = T.ATOM_LIST[i]
        if info[0] == "fn" and info[1].startswith("uf:"):
            ufs.setdefault((info[1], len(info[2])), []).append(i)
    for (nm, ar), lst in ufs.items():
        for a_ in range(len(lst)):
            for b_ in range(a_ + 1, len(lst)):
                ia, ib = lst[a_], lst[b_]
                eqs = []
                for ta, tb in zip(T.ATOM_LIST[ia][2], T.ATOM_LIST[ib][2]):
                    (na, da), (nb, db) = T.nf(ta), T.nf(tb)
                    eqs.append(z.poly(na) * z.poly(db) == z.poly(nb) * z.poly(da))
                ax.append(z3.Implies(z3.And(eqs), z.atom(ia) == z.atom(ib)))
    # atan2(-y,-x) against atan2(y,x): they differ by pi (sign fixed by the half plane)
    at2 = [(i, T.ATOM_LIST[i][2]) for i in seen if T.ATOM_LIST[i][0] == "fn" and T.ATOM_LIST[i][1] == "atan2"]
    for a_i, (ya, xa) in at2:
        for b_i, (yb, xb) in at2:
            if a_i < b_i:
                if T.rf_key(T.nf(T.Neg(ya))) == T.rf_key(T.nf(yb)) and T.rf_key(T.nf(T.Neg(xa))) == T.rf_key(T.nf(xb)):
                    (yn, yd), (xn, xd) = T.nf(ya), T.nf(xa)
                    y = z.poly(yn) if T.p_is_const(yd) else z.poly(yn) * z.poly(yd)
                    xx = z.poly(xn) if T.p_is_const(xd) else z.poly(xn) * z.poly(xd)
                    A, B = z.atom(a_i), z.atom(b_i)
                    up = z3.Or(y > 0, z3.And(y == 0, xx < 0))
                    ax += [z3.Implies(z3.And(up, z3.Or(y != 0, xx != 0)), B == A - z.pi), z3.Implies(z3.And(z3.Not(up), z3.Or(y != 0, xx != 0)), B == A + z.pi)]
    for key, d in trig.items():
        if "sin" in d and "cos" in d:
            s = z.atom(d["sin"][0])
            c = z.atom(d["cos"][0])
            ax.append(s * s + c * c == 1)
    ax += [z.pi > zfrac(PI_LO), z.pi < zfrac(PI_HI)]
    return ax


def cond_atoms(c, acc):
    if isinstance(c, int):
        return
    if c.kind == "cmp":
        n, d = T.nf(T.Sub(c.a, c.b))
        acc |= T.p_vars(n)
        acc |= T.p_vars(d)
    else:
        cond_atoms(c.a, acc)
        if c.b is not None:
            cond_atoms(c.b, acc)


def check(formulas, timeout_ms=10000, want_model=False):
    s = z3.Solver()
    s.set("timeout", int(timeout_ms))
    for f in formulas:
        s.add(f)
    t = time.time()
    r = s.check()
    dt = time.time() - t
    STATS["queries"] += 1
    STATS["time"] += dt
    rs = str(r)
    STATS[rs] = STATS.get(rs, 0) + 1
    m = None
    if r == z3.sat and want_model:
        m = s.model()
    return rs, m, dt


class Feasibility:
    """path-feasibility oracle handed to the interpreter"""

    def __init__(self, assumptions=(), timeout_ms=1500):
        self.z = Z()
        self.assumptions = list(assumptions)  # list of (Cond, polarity)
        self.timeout = timeout_ms
        self.cache = {}
        self.queries = 0

    def key(self, c, pol):
        if isinstance(c, int):
            return ("b", bool(c) == pol)
        if c.kind == "cmp":
            n, d = T.nf(T.Sub(c.a, c.b))
            return (T.p_key(n), T.p_key(d), c.pred, pol)
        return (c.kind, self.key(c.a, True), self.key(c.b, True) if c.b is not None else None, pol)

    def __call__(self, pc, c, pol):
        try:
            k = self.key(c, pol)
            pk = tuple(self.key(a, b) for a, b in pc)
        except (T.PolyTooBig, MemoryError):
            return None
        if k in pk:
            return True
        # direct contradiction: same comparison with the other polarity
        k2 = self.key(c, not pol)
        if k2 in pk:
            return False
        ck = (pk, k)
        r = self.cache.get(ck)
        if r is not None:
            return r[0]
        fs = []
        atoms = set()
        for a, b in list(self.assumptions) + list(pc) + [(c, pol)]:
            f, side = self.z.cond(a, b)
            fs.append(f)
            fs += side
            cond_atoms(a, atoms)
        fs += atom_axioms(self.z, atoms)
        self.queries += 1
        rs, _, _ = check(fs, self.timeout)
        res = False if rs == "unsat" else (True if rs == "sat" else None)
        self.cache[ck] = (res,)
        return res

    def int_candidates(self, pc, term, maxn=12):
        """admissible values of trunc(term) under pc (enumerated by repeated solving)"""
        z = self.z
        fs = []
        atoms = set()
        for a, b in list(self.assumptions) + list(pc):
            f, side = z.cond(a, b)
            fs.append(f)
            fs += side
            cond_atoms(a, atoms)
        n, d = T.nf(term)
        atoms |= T.p_vars(n) | T.p_vars(d)
        fs += atom_axioms(z, atoms)
        x = z3.Real("trunc_arg")
        if T.p_is_const(d):
            fs.append(x == z.poly(n))
        else:
            fs.append(x * z.poly(d) == z.poly(n))
            fs.append(z.poly(d) != 0)
        out = []
        s = z3.Solver()
        s.set("timeout", 4000)
        for f in fs:
            s.add(f)
        while len(out) < maxn:
            r = s.check()
            if r != z3.sat:
                if r == z3.unknown and not out:
                    return None
                break
            v = s.model().eval(x, model_completion=True)
            try:
                q = Fraction(v.numerator_as_long(), v.denominator_as_long())
            except Exception:
                q = Fraction(str(v.approx(20)).rstrip("?"))
            k = int(q)
            out.append(k)
            if k > 0:
                s.add(z3.Or(x < k, x >= k + 1))
            elif k < 0:
                s.add(z3.Or(x > k, x <= k - 1))
            else:
                s.add(z3.Or(x <= -1, x >= 1))
        return sorted(set(out))


# ---------------------------------------------------------------------------------------------- reduction
def trig_rewrite_map():
    """Express sin/cos atoms whose arguments are rational multiples of a common monomial through the atoms
    of the smallest multiple (multiple-angle formulas).  Returns (subst: atom->poly, base_pairs)."""
    groups = {}
    for i, info in enumerate(T.ATOM_LIST):
        if info[0] == "fn" and info[1] in ("sin", "cos"):
            n, d = T.nf(info[2][0])
            if not T.p_is_const(d) or len(n) != 1:
                groups.setdefault(("own", T.rf_key((n, d))), []).append((i, info[1], Fraction(1), info[2][0]))
                continue
            (m, q), = n.items()
            groups.setdefault(m, []).append((i, info[1], q, info[2][0]))
    return groups


def frac_gcd(qs):
    from math import gcd
    num = 0
    den = 1
    for q in qs:
        q = abs(q)
        num = gcd(num * q.denominator, q.numerator * den)
        den = den * q.denominator
        g = gcd(num, den)
        if g:
            num //= g
            den //= g
    return Fraction(num, den)


def build_rules(extra_rules=()):
    """Rewrite rules atom^2 -> poly from the atoms currently registered + user rules.
    returns (subst for multi-angle atoms, list of (atom, power, replacement poly))"""
    rules = []
    subst = {}
    # trig
    for key, members in list(trig_rewrite_map().items()):
        if isinstance(key, tuple) and key and key[0] == "own":
            sa = [m for m in members if m[1] == "sin"]
            ca = [m for m in members if m[1] == "cos"]
            if sa and ca:
                rules.append((sa[0][0], 2, T.p_sub(T.p_const(1), T.p_pow(T.p_atom(ca[0][0]), 2))))
            continue
        base = frac_gcd([m[2] for m in members])
        # base atoms
        mono = key
        argt = T.poly_to_term({mono: base})
        S = T.nf(T.Fn("sin", argt))[0]
        C = T.nf(T.Fn("cos", argt))[0]
        (sm, _), = S.items()
        (cm, _), = C.items()
        si, ci = sm[0][0], cm[0][0]
        rules.append((si, 2, T.p_sub(T.p_const(1), T.p_pow(C, 2))))
        for (i, fn, q, _) in members:
            k = q / base
            assert k.denominator == 1
            k = int(k)
            if abs(k) == 1 and k > 0:
                continue
            # chebyshev recursion: sin((n+1)x)=2cos x sin(nx) - sin((n-1)x)
            s_prev, s_cur = T.p_const(0), S
            c_prev, c_cur = T.p_const(1), C
            for _ in range(abs(k) - 1):
                s_prev, s_cur = s_cur, T.p_sub(T.p_scale(T.p_mul(C, s_cur), 2), s_prev)
                c_prev, c_cur = c_cur, T.p_sub(T.p_scale(T.p_mul(C, c_cur), 2), c_prev)
            if fn == "sin":
                subst[i] = s_cur if k > 0 else T.p_neg(s_cur)
            else:
                subst[i] = c_cur
    # sqrt (definitional) and context rules
    rules += list(T.CTX.auto_rules)
    have = {(a, k) for a, k, _ in extra_rules}
    rules += [r for r in T.CTX.rules if (r[0], r[1]) not in have]
    for r in extra_rules:
        rules.append(r)
    return subst, rules


reduce_poly = T.reduce_poly


class Verdict:
    def __init__(self, status, how, dt=0.0, model=None, detail=""):
        self.status = status  # 'holds' | 'violated' | 'undecided'
        self.how = how
        self.dt = dt
        self.model = model
        self.detail = detail

    def __repr__(self):
        return "<%s via %s %.2fs %s>" % (self.status, self.how, self.dt, self.detail[:80])


def model_values(z, m):
    """z3 model -> {atom_index: float} (algebraic numbers through a 30-digit rational approximation)"""
    out = {}
    for i, v in z.avars.items():
        val = m.eval(v, model_completion=True)
        x = float("nan")
        try:
            x = float(Fraction(val.numerator_as_long(), val.denominator_as_long()))
        except Exception:
            try:
                r = val.approx(30)
                x = float(Fraction(r.numerator_as_long(), r.denominator_as_long()))
            except Exception:
                try:
                    x = float(val.as_decimal(25).rstrip("?"))
                except Exception:
                    x = float("nan")
        out[i] = x
    return out


def check_identity(resid_rf, pc=(), assumptions=(), extra_rules=(), timeout_ms=10000, extra_formulas=None):
    """Decide  forall atoms: (constraints & pc) -> resid == 0   where resid = num/den (rational function).
    assumptions / pc: lists of (Cond, polarity)."""
    t0 = time.time()
    n, d = resid_rf
    subst, rules = build_rules(extra_rules)
    nr = reduce_poly(n, subst, rules)
    z = Z()
    fs = []
    atoms = set(T.p_vars(nr))
    for a, b in list(assumptions) + list(pc):
        f, side = z.cond(a, b)
        fs.append(f)
        fs += side
        cond_atoms(a, atoms)
    for (a, k, rep) in extra_rules:
        atoms.add(a)
        atoms |= T.p_vars(rep)
        x = z.atom(a)
        lhs = x
        for _ in range(k - 1):
            lhs = lhs * x
        fs.append(lhs == z.poly(rep))
    # multi-angle definitions
    for i, rep in subst.items():
        if i in atoms:
            fs.append(z.atom(i) == z.poly(rep))
            atoms |= T.p_vars(rep)
    fs += atom_axioms(z, atoms)
    if extra_formulas:
        fs += extra_formulas(z)
    fs.append(z.poly(nr) != 0)
    rs, m, dt = check(fs, timeout_ms, want_model=True)
    how = "z3(reduced residual %d monomials)" % len(nr)
    if rs == "unsat":
        return Verdict("holds", how, time.time() - t0)
    if rs == "sat":
        return Verdict("violated", how, time.time() - t0, model=model_values(z, m), detail="residual " + T.p_str(nr, 6))
    return Verdict("undecided", how, time.time() - t0, detail="residual " + T.p_str(nr, 6))


# ---------------------------------------------------------------------------------------------- bounds
def mono_bounds(m, box):
    lo, hi = Fraction(1), Fraction(1)
    for v, e in m:
        a, b = box[v]
        if e % 2 == 0:
            if a <= 0 <= b:
                l2, h2 = Fraction(0), max(abs(a), abs(b)) ** e
            else:
                l2, h2 = min(abs(a), abs(b)) ** e, max(abs(a), abs(b)) ** e
        else:
            l2, h2 = a ** e, b ** e
        c = [lo * l2, lo * h2, hi * l2, hi * h2]
        lo, hi = min(c), max(c)
    return lo, hi


def poly_range(p, box):
    lo = hi = Fraction(0)
    for m, c in p.items():
        l, h = mono_bounds(m, box)
        if c >= 0:
            lo += c * l
            hi += c * h
        else:
            lo += c * h
            hi += c * l
    return lo, hi


def check_bound(resid_poly, box, tol, den_poly=None, timeout_ms=10000, max_split=64):
    """Decide  forall atoms in box: |resid| <= tol * |den|   by the monomial LRA relaxation with bisection.
    box: atom -> (lo, hi) Fractions.  Returns Verdict; on failure model = centre of the offending sub-box."""
    t0 = time.time()
    work = [dict(box)]
    nq = 0
    if DEBUG:
        print("check_bound: %d monomials, %d vars, degree %d, tol %s" % (len(resid_poly), len(box), T.p_degree(resid_poly), float(tol)), flush=True)
    while work:
        b = work.pop()
        # LRA relaxation: each monomial an independent variable within its interval bounds.  Because the relaxed
        # variables are independent, summing the interval contributions of a bucket of monomials first is an
        # equivalent (not weaker) query; z3 gets <= 32 bucket variables instead of thousands.
        s = z3.Solver()
        s.set("timeout", int(timeout_ms))
        NB = 32
        blo = [Fraction(0)] * NB
        bhi = [Fraction(0)] * NB
        const = Fraction(0)
        for k, (m, c) in enumerate(resid_poly.items()):
            if m == ():
                const += c
                continue
            lo, hi = mono_bounds(m, b)
            if c >= 0:
                blo[k % NB] += c * lo
                bhi[k % NB] += c * hi
            else:
                blo[k % NB] += c * hi
                bhi[k % NB] += c * lo
        terms = [zfrac(const)]
        for k in range(NB):
            if blo[k] == 0 and bhi[k] == 0:
                continue
            v = z3.Real("m%d" % k)
            s.add(v >= zfrac(blo[k]), v <= zfrac(bhi[k]))
            terms.append(v)
        r = z3.Sum(terms) if terms else z3.RealVal(0)
        if den_poly is not None:
            dlo, dhi = poly_range(den_poly, b)
            if dlo <= 0 <= dhi:
                dmin = Fraction(0)
            else:
                dmin = min(abs(dlo), abs(dhi))
            bound = zfrac(tol * dmin)
        else:
            bound = zfrac(tol)
        s.add(z3.Or(r > bound, r < -bound))
        t = time.time()
        res = s.check()
        STATS["queries"] += 1
        STATS["time"] += time.time() - t
        nq += 1
        if res == z3.unsat:
            continue
        # split along widest relative contribution
        if nq >= max_split:
            centre = {v: float((lo + hi) / 2) for v, (lo, hi) in b.items()}
            return Verdict("undecided", "lra-relaxation(%d boxes)" % nq, time.time() - t0, model=centre)
        best = None
        acc = {}
        for m, c in resid_poly.items():
            if not m:
                continue
            lo_m, hi_m = mono_bounds(m, b)
            bm = abs(c) * max(abs(lo_m), abs(hi_m))
            for v, e in m:
                acc[v] = acc.get(v, 0) + bm
        for v, (lo, hi) in b.items():
            if hi - lo == 0 or v not in acc:
                continue
            gain = acc[v]
            if best is None or gain > best[0]:
                best = (gain, v)
        if best is None:
            centre = {v: float((lo + hi) / 2) for v, (lo, hi) in b.items()}
            return Verdict("violated", "lra-relaxation(point box)", time.time() - t0, model=centre)
        v = best[1]
        lo, hi = b[v]
        mid = (lo + hi) / 2
        b1 = dict(b)
        b1[v] = (lo, mid)
        b2 = dict(b)
        b2[v] = (mid, hi)
        work += [b1, b2]
    return Verdict("holds", "lra-relaxation(%d boxes)" % nq, time.time() - t0)


def entails(pc, cond, pol=True, assumptions=(), timeout_ms=3000):
    """True iff  assumptions & pc  =>  (cond == pol)  is proved (unsat of the negation)."""
    z = Z()
    fs = []
    atoms = set()
    for a, b in list(assumptions) + list(pc) + [(cond, not pol)]:
        f, side = z.cond(a, b)
        fs.append(f)
        fs += side
        cond_atoms(a, atoms)
    fs += atom_axioms(z, atoms)
    rs, _, _ = check(fs, timeout_ms)
    return rs == "unsat"


def counterexample(pc, cond, pol=True, assumptions=(), timeout_ms=3000):
    """('unsat', None) if assumptions & pc => (cond == pol); ('sat', {atom index: value}) with a model of the negation; ('unknown', None)"""
    z = Z()
    fs = []
    atoms = set()
    for a, b in list(assumptions) + list(pc) + [(cond, not pol)]:
        f, side = z.cond(a, b)
        fs.append(f)
        fs += side
        cond_atoms(a, atoms)
    fs += atom_axioms(z, atoms)
    rs, m, _ = check(fs, timeout_ms, want_model=True)
    if rs == "sat":
        return rs, model_values(z, m)
    return rs, None


def sup_threshold(pc, term, candidates, assumptions=()):
    """smallest candidate T with pc => term <= T (None if none is implied)"""
    for c in candidates:
        if entails(pc, Cond("cmp", term, T.Const(c), "ole"), True, assumptions):
            return c
    return None


def enclose_trig(p, nterms=4, tag="xe"):
    """Replace every sin/cos atom of polynomial p by its Taylor polynomial in the argument plus a Lagrange remainder
    xi*u^n/n!, |xi|<=1 (valid for all real u).  Returns (poly, xi_atoms)."""
    from math import factorial
    sub = {}
    xis = []
    for v in T.p_vars(p):
        info = T.ATOM_LIST[v]
        if info[0] == "fn" and info[1] in ("sin", "cos"):
            n, d = T.nf(info[2][0])
            if not T.p_is_const(d):
                continue
            u = n
            xi_t = T.Sym("%s!%s%d" % (tag, info[1], v))
            xi = T.nf(xi_t)[0]
            (xm, _), = xi.items()
            xis.append(xm[0][0])
            acc = {}
            if info[1] == "sin":
                for k in range(nterms):
                    acc = T.p_add(acc, T.p_scale(T.p_pow(u, 2 * k + 1), Fraction((-1) ** k, factorial(2 * k + 1))))
                acc = T.p_add(acc, T.p_scale(T.p_mul(xi, T.p_pow(u, 2 * nterms + 1)), Fraction(1, factorial(2 * nterms + 1))))
            else:
                for k in range(nterms):
                    acc = T.p_add(acc, T.p_scale(T.p_pow(u, 2 * k), Fraction((-1) ** k, factorial(2 * k))))
                acc = T.p_add(acc, T.p_scale(T.p_mul(xi, T.p_pow(u, 2 * nterms)), Fraction(1, factorial(2 * nterms))))
            sub[v] = acc
    if sub:
        p = T.p_subst(p, sub)
    return p, xis


def sqrt_rules():
    return list(T.CTX.auto_rules)


def box_for(p_list, sym_box, default=None):
    """box over all atoms of the given polynomials: symbols from sym_box(name) -> (lo,hi); sqrt atoms from the range
    of their argument; returns None if some atom cannot be bounded"""
    box = dict(default or {})
    todo = set()
    for p in p_list:
        todo |= T.p_vars(p)
    pending = list(todo)
    order = []
    while pending:
        v = pending.pop()
        if v in box or v in order:
            continue
        info = T.ATOM_LIST[v]
        if info[0] == "sym":
            b = sym_box(info[1])
            if b is None:
                return None
            box[v] = b
        elif info[0] == "fn" and info[1] == "sqrt":
            n, d = T.nf(info[2][0])
            if not T.p_is_const(d):
                return None
            order.append(v)
            for x in T.p_vars(n):
                if x not in box and x not in order:
                    pending.append(x)
        else:
            return None
    import math
    for _ in range(len(order) + 1):
        for v in order:
            if v in box:
                continue
            n, d = T.nf(T.ATOM_LIST[v][2][0])
            if all(x in box for x in T.p_vars(n)):
                lo, hi = poly_range(n, box)
                hi = max(hi, Fraction(0))
                lo = max(lo, Fraction(0))
                # rational enclosure of [sqrt(lo), sqrt(hi)]
                s = Fraction(math.isqrt(int(hi * 10**24)) + 1, 10**12)
                l = Fraction(math.isqrt(int(lo * 10**24)), 10**12)
                box[v] = (l, s)
    if any(v not in box for v in order):
        return None
    return box


def enclose_sqrt_near1(p, sym_box, tag="xq"):
    """sqrt(1-u) = 1 - u/2 - u^2/8 - u^3/16 - xi*(6/128)*u^4, xi in [0,1], for atoms sqrt(arg) with arg = 1-u and
    u in [0, 1e-3] on the given symbol box (Lagrange remainder: (5/128)(1-u)^(-7/2) u^4 <= (6/128) u^4)."""
    sub = {}
    for v in T.p_vars(p):
        info = T.ATOM_LIST[v]
        if info[0] == "fn" and info[1] == "sqrt":
            n, d = T.nf(info[2][0])
            if not T.p_is_const(d):
                continue
            n = T.p_scale(n, 1 / d[()])
            u = T.p_sub(T.p_const(1), n)
            b = box_for([u], sym_box)
            if b is None:
                continue
            lo, hi = poly_range(u, b)
            if lo < 0 or hi > Fraction(1, 1000):
                continue
            xi = T.nf(T.Sym("%s!%d" % (tag, v)))[0]
            acc = T.p_const(1)
            acc = T.p_sub(acc, T.p_scale(u, Fraction(1, 2)))
            acc = T.p_sub(acc, T.p_scale(T.p_pow(u, 2), Fraction(1, 8)))
            acc = T.p_sub(acc, T.p_scale(T.p_pow(u, 3), Fraction(1, 16)))
            acc = T.p_sub(acc, T.p_scale(T.p_mul(xi, T.p_pow(u, 4)), Fraction(6, 128)))
            sub[v] = acc
    if sub:
        p = T.p_subst(p, sub)
    return p
