"""Common machinery of the registered checks: harness handling, differential validation (DESIGN 2.7),
replay (2.8), known findings, evidence writing, parallel job execution."""
import glob, ctypes, json, math, os, random, sys, time, traceback, multiprocessing, re, hashlib
from fractions import Fraction
from . import build, interp, terms as T, engine, solver

VERIF = build.VERIF
EVID = os.path.join(VERIF, "evidence")
KNOWN = os.path.join(VERIF, "known_findings.json")


def mpmath():
    import mpmath
    mpmath.mp.dps = 50
    return mpmath


class NativeCrash(Exception):
    pass


class Harness:
    """one generated TU: IR module for symx + native g++ shared object"""

    def __init__(self, name, text, extra=(), keep_calls=False, native=True):
        self.name = name
        self.text = text
        self.extra = tuple(extra)
        self.keep_calls = keep_calls
        self.json = build.compile_ir(name, text, extra, keep_calls)
        self._mod = None
        self.so = build.compile_native(name, text, extra) if native else None
        self._lib = None

    @property
    def mod(self):
        if self._mod is None:
            self._mod = interp.Module(self.json)
        return self._mod

    @property
    def lib(self):
        if self._lib is None:
            self._lib = ctypes.CDLL(self.so)
        return self._lib

    def native(self, fn, inp, nout, fbits=64):
        """run the g++ -O2 build of the wrapper in a forked child, so that undefined behaviour in a (changed) library cannot take the
        checking process down; a child killed by a signal raises NativeCrash"""
        import struct as _st
        f = getattr(self.lib, fn)
        r, w = os.pipe()
        pid = os.fork()
        if pid == 0:
            try:
                os.close(r)
                ct = ctypes.c_double if fbits == 64 else ctypes.c_float
                a = (ct * max(1, len(inp)))(*inp)
                o = (ct * max(1, nout))()
                f(a, o)
                data = _st.pack("<%dd" % nout, *[float(x) for x in list(o)[:nout]])
                os.write(w, data)
            finally:
                os._exit(0)
        os.close(w)
        chunks = []
        while True:
            b = os.read(r, 65536)
            if not b:
                break
            chunks.append(b)
        os.close(r)
        _, status = os.waitpid(pid, 0)
        data = b"".join(chunks)
        if os.WIFSIGNALED(status) or len(data) != 8 * nout:
            raise NativeCrash("native wrapper %s died (signal %s) on input %r" % (fn, os.WTERMSIG(status) if os.WIFSIGNALED(status) else "?", list(inp)))
        return list(_st.unpack("<%dd" % nout, data))

    def concrete(self, fn, inp, nout, fbits=64):
        m = interp.Machine(self.mod, mode="conc")
        m.run_ctors()
        sz = fbits // 8
        fty = engine.FP64 if fbits == 64 else engine.FP32
        i = m.new_obj(sz * len(inp) or 1, "in")
        o = m.new_obj(sz * nout or 1, "out")
        for k, x in enumerate(inp):
            m.store_raw(i, sz * k, sz, float(x) if fbits == 64 else interp.f32round(float(x)))
        m.run(fn, [m.addr(i), m.addr(o)])
        return [m.load(m.addr(o) + sz * k, fty) for k in range(nout)], m.steps

    def validate(self, fn, sampler, nout, n=12, fbits=64, rtol=None):
        """symx (concrete-double mode on the clang IR) vs. the g++ -O2 build of the same wrapper."""
        rtol = rtol if rtol is not None else (1e-10 if fbits == 64 else 1e-4)
        cnt = 0
        for k in range(n):
            inp = sampler(k)
            a = self.native(fn, inp, nout, fbits)   # NativeCrash propagates: the job reports it
            try:
                b, _ = self.concrete(fn, inp, nout, fbits)
            except interp.PathAbort:
                continue
            sc = max([1.0] + [abs(x) for x in a if x == x and not math.isinf(x)])
            for oi, (x, y) in enumerate(zip(a, b)):
                if type(y).__name__ == "Undef":
                    raise UninitOutput("%s: output %d is read from memory the real code never initialised (input %r)" % (fn, oi, inp), fn, inp, a)
                if (x != x) and (y != y):
                    continue
                if math.isinf(x) and math.isinf(y):
                    continue
                if not abs(x - y) <= rtol * sc:
                    raise RuntimeError("translation validation failed for %s on %r: native %r vs symx %r" % (fn, inp, a, b))
            cnt += 1
        return cnt


class UninitOutput(Exception):
    def __init__(self, msg, fn, inp, native):
        super().__init__(msg)
        self.fn, self.inp, self.native_out = fn, inp, native


def load_known():
    try:
        return json.load(open(KNOWN))
    except FileNotFoundError:
        return {"findings": [], "fixed": []}


class Result:
    """picklable result of one job"""

    def __init__(self):
        self.obls = []  # (name, status, how, dt)
        self.paths = 0
        self.steps = 0
        self.validated = 0
        self.functions = set()
        self.violations = []  # dict(key, what, replay)
        self.notes = []
        self.stubs = set()
        self.snaps = {}
        self.samples = []
        self.refuted = 0
        self.errors = []
        self.solver_time = 0.0
        self.queries = 0
        self.bounds = set()
        self.axioms = set()

    def add(self, name, v):
        self.obls.append((name, v.status, v.how, round(v.dt, 3)))
        if len(self.samples) < 3:
            self.samples.append({"obligation": name, "verdict": v.status, "decided_by": v.how, "time_s": round(v.dt, 3)})

    def add_raw(self, name, status, how, dt=0.0):
        self.obls.append((name, status, how, round(dt, 3)))
        if len(self.samples) < 3:
            self.samples.append({"obligation": name, "verdict": status, "decided_by": how, "time_s": round(dt, 3)})

    def note_paths(self, paths, ex=None):
        self.paths += len(paths)
        self.steps += sum(p.steps for p in paths)
        if ex is not None:
            self.refuted += ex.refuted
        for p in paths:
            for f in p.calls:
                self.functions.add(f)


JOB_MEM_GB = [10]   # address-space cap per job process: a runaway normal form raises MemoryError (-> undecided/error), never an OOM kill


def _child(job, conn):
    try:
        ctypes.CDLL("libc.so.6").prctl(1, 9)   # PR_SET_PDEATHSIG = SIGKILL: never outlive the check process
    except Exception:
        pass
    try:
        import resource
        lim = JOB_MEM_GB[0] << 30
        resource.setrlimit(resource.RLIMIT_AS, (lim, lim))
    except Exception:
        pass
    try:
        r = _run_job(job)
    except MemoryError as e:
        r = _budget_result(job, "memory cap of %d GB reached" % JOB_MEM_GB[0])
    except BaseException as e:
        r = Result()
        r.errors.append("job %s: %r" % (getattr(job[0], "__name__", "?"), e))
    try:
        conn.send(r)
    except BaseException as e:
        r2 = Result()
        r2.errors.append("job %s: result could not be sent: %r" % (getattr(job[0], "__name__", "?"), e))
        conn.send(r2)
    conn.close()


def _budget_result(job, why):
    """a job that ran out of its time or memory budget decided nothing: that is recorded as an undecided obligation (listed in the evidence,
    never a pass for what it would have covered) -- not as an internal error"""
    r = Result()
    name = "%s%r" % (getattr(job[0], "__name__", "?"), tuple(str(x)[:30] for x in job[1][:4]))
    r.add_raw("job/" + name, "undecided", "job exceeded its budget (%s): nothing it would have decided is claimed" % why)
    r.notes.append("BUDGET: %s: %s" % (name, why))
    r.paths, r.steps = 1, 1
    return r


def run_jobs(jobs, nproc=None, timeout=2400):
    """jobs: list of (callable, args).  Each returns a Result.  One forked process per job, at most nproc at a time.  A process that dies
    (undefined behaviour in a natively executed wrapper, memory cap) or exceeds the timeout yields an error Result: the run then exits 2,
    never 0."""
    nproc = nproc or min(int(os.environ.get("SYMX_NPROC", "16") or 16), max(1, len(jobs)))
    if len(jobs) == 1 or os.environ.get("SYMX_SERIAL"):
        return [_run_job(j) for j in jobs]
    ctx = multiprocessing.get_context("fork")
    out = [None] * len(jobs)
    pending = list(range(len(jobs)))
    running = {}
    while pending or running:
        while pending and len(running) < nproc:
            i = pending.pop(0)
            a, b = ctx.Pipe(duplex=False)
            pr = ctx.Process(target=_child, args=(jobs[i], b))
            pr.start()
            b.close()
            running[i] = (pr, a, time.time())
        done = []
        for i, (pr, a, t0) in running.items():
            name = getattr(jobs[i][0], "__name__", "?")
            if a.poll(0):
                try:
                    out[i] = a.recv()
                except Exception as e:
                    out[i] = Result()
                    out[i].errors.append("job %s failed: %r" % (name, e))
                done.append(i)
            elif not pr.is_alive():
                if a.poll(0.2):
                    continue
                out[i] = Result()
                out[i].errors.append("job %s%r died (exit code %s)" % (name, tuple(str(x)[:30] for x in jobs[i][1]), pr.exitcode))
                done.append(i)
            elif time.time() - t0 > timeout:
                pr.kill()
                out[i] = _budget_result(jobs[i], "timeout after %ds" % timeout)
                done.append(i)
        for i in done:
            pr, a, _ = running.pop(i)
            pr.join(5)
            a.close()
        if not done:
            time.sleep(0.05)
    return out


JOB_BUDGET = [None]  # seconds of polynomial arithmetic per job; afterwards obligations come back undecided


def _run_job(job):
    fn, args = job
    t0 = time.time()
    solver.STATS.update({"queries": 0, "time": 0.0})
    T.DEADLINE[0] = (t0 + JOB_BUDGET[0]) if JOB_BUDGET[0] else None
    try:
        r = fn(*args)
    except NativeCrash as e:
        r = Result()
        r.add_raw("native-run-completes", "violated", str(e)[:300])
        r.paths, r.steps = 1, 1
        r.violations.append({"key": "native-crash/%s" % getattr(fn, "__name__", "?"), "what": "the natively built wrapper crashed: %s" % str(e)[:400],
                             "replay": {"kind": "memory", "key": "native-crash", "what": str(e)[:400]}})
    except MemoryError:
        r = _budget_result(job, "memory cap of %d GB reached" % JOB_MEM_GB[0])
    except UninitOutput as e:
        r = Result()
        r.add_raw("outputs-initialised", "violated", str(e)[:300])
        r.paths, r.steps = 1, 1
        r.violations.append({"key": "uninitialised-output/%s" % e.fn, "what": "the wrapper returns uninitialised memory: %s" % str(e)[:400],
                             "replay": {"kind": "memory", "key": "uninitialised-output/%s" % e.fn, "what": str(e)[:400], "fn": e.fn, "inputs": e.inp}})
    except Exception as e:
        r = Result()
        r.errors.append("job %s%r: %s\n%s" % (getattr(fn, "__name__", "?"), tuple(str(a)[:40] for a in args), e, traceback.format_exc()[-2500:]))
    r.solver_time += solver.STATS["time"]
    r.queries += solver.STATS["queries"]
    r.snaps.update(T.SNAP_LOG)
    r.wall = time.time() - t0
    return r


class Run:
    def __init__(self, pid, tier, argv=None):
        self.pid = pid
        self.tier = tier
        self.seed = int(os.environ.get("VERIF_SEED", "0") or 0)
        self.t0 = time.time()
        self.results = []
        self.assumptions = []
        self.bounds = []
        self.notes = []
        self.known = load_known()

    def extend(self, results):
        self.results += results

    def finish(self, level="model_checking", extra_cov=None):
        obls = [o for r in self.results for o in r.obls]
        nob = len(obls)
        disc = sum(1 for o in obls if o[1] == "holds")
        und = [o for o in obls if o[1] == "undecided"]
        vio = [v for r in self.results for v in r.violations]
        errors = [e for r in self.results for e in r.errors]
        nviol_obl = sum(1 for o in obls if o[1] == "violated")
        if disc == 0 and not vio:
            errors.append("vacuous run: no obligation was discharged (every job out of budget or failed)")
        if nviol_obl and not vio:
            errors.append("%d obligations marked violated without a violation record: %s" % (nviol_obl, [o[0] for o in obls if o[1] == "violated"][:5]))
        paths = sum(r.paths for r in self.results)
        steps = sum(r.steps for r in self.results)
        funcs = sorted(set(f for r in self.results for f in r.functions))
        known_keys = [(k["property"], k["key"]) for k in self.known.get("findings", [])]
        new_vio = []
        printed_known = set()
        seen_keys = set()
        uniq = []
        for v in vio:
            if v["key"] in seen_keys:
                continue
            seen_keys.add(v["key"])
            uniq.append(v)
        vio = uniq
        for v in vio:
            hit = None
            for (p, key) in known_keys:
                if p == self.pid and (v["key"] == key or re.fullmatch(key, v["key"])):
                    hit = key
                    break
            if hit is not None:
                if hit not in printed_known:
                    print("KNOWN-FINDING: property=%s %s" % (self.pid, v["what"]))
                    printed_known.add(hit)
            else:
                new_vio.append(v)
        os.makedirs(os.path.join(EVID, "replay"), exist_ok=True)
        for old in glob.glob(os.path.join(EVID, "replay", "%s-*.json" % self.pid)):   # replay files of earlier runs are stale
            os.remove(old)
        for k, v in enumerate(new_vio):
            path = os.path.join(EVID, "replay", "%s-%d.json" % (self.pid, k))
            json.dump(v.get("replay", {"key": v["key"], "what": v["what"]}), open(path, "w"), indent=1, default=str)
            print("VIOLATION property=%s replay=%s" % (self.pid, path))
            print("  " + v["what"])
        samples = [s for r in self.results for s in r.samples][:8]
        if not samples:
            samples = [{"note": "no obligations generated"}]
        cov = {
            "states": max(paths, 0),
            "transitions": max(steps, 0),
            "traces_validated_against_impl": sum(r.validated for r in self.results),
            "samples": samples,
            "obligations": nob,
            "discharged": disc,
            "undecided": len(und),
            "undecided_list": [o[0] for o in und][:40],
            "violations_known": len(vio) - len(new_vio),
            "paths_refuted_infeasible": sum(r.refuted for r in self.results),
            "functions_encoded": funcs[:400],
            "functions_encoded_count": len(funcs),
            "bounds": sorted(set(self.bounds) | set(b for r in self.results for b in r.bounds)),
            "stubs": sorted(set(s for r in self.results for s in r.stubs)),
            "axiom_instances": sorted(set(s for r in self.results for s in r.axioms)),
            "literal_snaps": dict(list({k: v for r in self.results for k, v in r.snaps.items()}.items())[:60]),
            "solver_queries": sum(r.queries for r in self.results),
            "solver_time_s": round(sum(r.solver_time for r in self.results), 2),
            "errors": errors[:10],
            "notes": self.notes + [n for r in self.results for n in r.notes][:40],
            "exhaustive": False,
        }
        if extra_cov:
            cov.update(extra_cov)
        ev = {
            "property_id": self.pid, "tier": self.tier, "seed": self.seed, "level": level, "coverage": cov,
            "assumptions": self.assumptions, "wall_s": round(time.time() - self.t0, 2), "violations": len(new_vio),
        }
        os.makedirs(EVID, exist_ok=True)
        json.dump(ev, open(os.path.join(EVID, self.pid + ".json"), "w"), indent=1, default=str)
        print("%s %s: %d obligations, %d discharged, %d undecided, %d violations (%d known), %d paths, %d IR steps, %d validated traces, %.1fs"
              % (self.pid, self.tier, nob, disc, len(und), len(vio), len(vio) - len(new_vio), paths, steps, cov["traces_validated_against_impl"], time.time() - self.t0))
        for o in und[:10]:
            print("  undecided:", o[0], o[2])
        if errors:
            for e in errors[:5]:
                print("ERROR:", e, file=sys.stderr)
        if new_vio:
            return 1
        if errors:
            # an internal error is not a property violation, but the run is not a pass either
            return 2
        if nob == 0 or paths == 0:
            print("ERROR: vacuous run (no obligations / no paths)", file=sys.stderr)
            return 2
        return 0


# ---------------------------------------------------------------------------------------------- witness search / replay
def eval_cond(c, env, lib=None):
    import math as _m
    if isinstance(c, int):
        return bool(c)
    if c.kind == "not":
        return not eval_cond(c.a, env, lib)
    if c.kind == "and":
        return eval_cond(c.a, env, lib) and eval_cond(c.b, env, lib)
    if c.kind == "or":
        return eval_cond(c.a, env, lib) or eval_cond(c.b, env, lib)
    if c.kind == "xor":
        return eval_cond(c.a, env, lib) != eval_cond(c.b, env, lib)
    a = T.evaluate(c.a, env, lib)
    b = T.evaluate(c.b, env, lib)
    p = c.pred[1:]
    return {"eq": a == b, "ne": a != b, "gt": a > b, "ge": a >= b, "lt": a < b, "le": a <= b}[p]


def pc_holds(pc, env):
    try:
        return all(eval_cond(c, env) == pol for c, pol in pc)
    except (ZeroDivisionError, ValueError, OverflowError):
        return False


def relerr_vs_oracle(native_out, oracle_terms, env_mp, mp, scale_mode="max"):
    """max |native - oracle| / scale with oracle evaluated at 50 digits"""
    vals = []
    for t in oracle_terms:
        vals.append(T.evaluate(t, env_mp, mp) if isinstance(t, T.Term) else mp.mpf(t))
    sc = max([abs(v) for v in vals] + [mp.mpf(1) if scale_mode == "max1" else mp.mpf(0)])
    if sc == 0:
        sc = mp.mpf(1)
    worst = mp.mpf(0)
    for x, v in zip(native_out, vals):
        if x != x:
            return float("inf"), [float(v) for v in vals]
        e = abs(mp.mpf(x) - v) / sc
        if e > worst:
            worst = e
    return float(worst), [float(v) for v in vals]


# ---------------------------------------------------------------------------------------------- generic wrapper check
def out_placeholders(n):
    return [T.Sym("out!%d" % k) for k in range(n)]


def check_wrapper(res, h, fn, in_syms, nout, oracle, key, tol, sampler, assumptions=(), rules=(), timeout_ms=10000,
                  stubs=None, max_paths=64, nvalidate=8, pid="", obligations=None, fbits=64, explorer_kw=None, on_paths=None,
                  per_path=None, in_names=None, rules_out=None):
    """Explore wrapper fn on symbolic inputs; for every feasible path pose identity obligations lhs == rhs.
    oracle(ins) -> list of Terms (one per output)   OR   obligations(ins, outs) -> [(name, lhs, rhs)] written over
    placeholder symbols for the outputs (so that the same obligation can be (a) instantiated with each path's output
    terms for the solver and (b) evaluated numerically on the NATIVE outputs for replay).
    per_path(path, obls) may return a dict name -> handler overriding how an obligation is decided on that path."""
    res.functions.add(fn)
    ex = engine.Explorer(h.mod, assumptions=assumptions, stubs=stubs, max_paths=max_paths, fbits=fbits, **(explorer_kw or {}))
    paths = ex.explore(fn, in_syms, nout)
    res.note_paths(paths, ex)
    # the interpreter bounds-checks every access; only if no path has a memory error is it safe to run the wrapper natively
    mem_bad = any(p.status == "memerror" for p in paths)
    if nvalidate and not mem_bad:
        res.validated += h.validate(fn, sampler, nout, nvalidate, fbits)
    if ex.truncated:
        res.errors.append("%s: path budget exhausted" % key)
    if on_paths:
        on_paths(paths)
    ph = out_placeholders(nout)
    if obligations is not None:
        obl = obligations(in_syms, ph)
    else:
        orc = oracle(in_syms)
        obl = [("out%d" % k, ph[k], orc[k]) for k in range(nout)]
    guards = {o[0]: list(o[3]) for o in obl if len(o) > 3}
    obl = [(o[0], o[1] if isinstance(o[1], T.Term) else T.lift(o[1]), o[2] if isinstance(o[2], T.Term) else T.lift(o[2])) for o in obl]
    gfeas = solver.Feasibility(list(assumptions), 2000) if guards else None
    names = in_names or [s.args[0] for s in in_syms]
    okpaths = 0
    for pi, p in enumerate(paths):
        pkey = "%s/path%d" % (key, pi)
        if p.status == "unsupported":
            res.errors.append("%s: unsupported: %s" % (pkey, p.reason))
            continue
        if p.status == "memerror":
            res.add_raw(pkey + "/memory-safe", "violated", "interpreter bounds check: " + p.reason)
            res.violations.append({"key": key + "/memory", "what": "%s: %s on path [%s]" % (fn, p.reason, p.pc_str()[:300]),
                                   "replay": {"property": pid, "key": key + "/memory", "kind": "memory", "fn": fn, "path": p.pc_str()}})
            continue
        if p.status == "abort":
            res.add_raw(pkey + "/no-abort", "undecided", "aborting path: " + p.reason)
            res.notes.append("%s aborting path: %s" % (pkey, p.reason))
            continue
        okpaths += 1
        sub = {"out!%d" % k: p.outs[k] for k in range(nout)}
        handlers = per_path(p, obl) if per_path else {}
        if handlers is None:
            continue
        gcache = {}
        for name, lhs, rhs in obl:
            oname = "%s/%s" % (pkey, name)
            hd = handlers.get(name) if handlers else None
            if hd == "skip":
                continue
            gd = guards.get(name, [])
            if gd:
                # guarded obligation: only where the guard is consistent with the path condition
                gk = tuple(id(c) for c, _ in gd)
                if gk not in gcache:
                    okg = True
                    pcs = list(p.pc)
                    for c, pol in gd:
                        if gfeas(pcs, c, pol) is False:
                            okg = False
                            break
                        pcs.append((c, pol))
                    gcache[gk] = okg
                if not gcache[gk]:
                    continue
            try:
                l2 = T.substitute(lhs, sub)
                r2 = T.substitute(rhs, sub)
                pg = type("P", (), {})()
                pg.pc = list(p.pc) + list(gd)
                pg.outs = p.outs
                if callable(hd):
                    v = hd(name, l2, r2, pg)
                else:
                    rf = T.nf(T.Sub(l2, r2))
                    v = solver.check_identity(rf, pc=pg.pc, assumptions=assumptions, extra_rules=rules, timeout_ms=timeout_ms)
            except (T.PolyTooBig, MemoryError):
                v = solver.Verdict("undecided", "normal form too large")
            if v.status == "holds":
                res.add(oname, v)
                continue
            w = None if mem_bad else find_witness(h, fn, names, nout, p, obl, name, tol, sampler, v.model, fbits, guard=gd)
            if w is not None:
                v.status = "violated"
                res.add(oname, v)
                res.violations.append({
                    "key": "%s/%s" % (key, name),
                    "what": "%s %s: native result differs from oracle by %.3g (tol %.1g) at input %r" % (fn, name, w["err"], tol, w["inputs"]),
                    "replay": dict(w, property=pid, key="%s/%s" % (key, name), tu_name=h.name, tu_text=h.text, extra=list(h.extra), fn=fn,
                                   nout=nout, tol=tol, fbits=fbits)})
            else:
                how = v.how + (" ; solver model not reproduced natively within tol" if v.status == "violated" else "")
                res.add_raw(oname, "undecided", how, v.dt)
    if okpaths == 0 and not mem_bad:
        res.errors.append("%s: no completed path (vacuous)" % key)
    return paths


def numeric_errors(obl, names, inp, out, mp):
    """evaluate every obligation lhs-rhs at 50 digits with inputs inp and NATIVE outputs out;
    returns dict name -> relative error (relative to max(1, largest |rhs| in the set))"""
    env = {n: mp.mpf(x) for n, x in zip(names, inp)}
    for k, x in enumerate(out):
        env["out!%d" % k] = mp.mpf(x) if x == x else mp.nan
    vals = {}
    sc = mp.mpf(1)
    for name, lhs, rhs in obl:
        try:
            l = T.evaluate(lhs, env, mp)
            r = T.evaluate(rhs, env, mp)
        except (ZeroDivisionError, ValueError, KeyError):
            continue
        vals[name] = (l, r)
        if mp.isfinite(r) and abs(r) > sc:
            sc = abs(r)
    errs = {}
    for name, (l, r) in vals.items():
        if not mp.isfinite(l) or not mp.isfinite(r):
            errs[name] = float("inf") if mp.isfinite(r) else 0.0
        else:
            errs[name] = float(abs(l - r) / sc)
    return errs, vals


def find_witness(h, fn, names, nout, path, obl, oname, tol, sampler, model, fbits=64, ntry=40, guard=()):
    """Look for a concrete input where obligation `oname`, evaluated on the NATIVE wrapper output, misses tol.
    Candidates: the solver's model (completed from a sampler point), then sampler points."""
    mp = mpmath()
    cands = []
    if model:
        env = {}
        for i, val in model.items():
            if i < len(T.ATOM_LIST) and T.ATOM_LIST[i][0] == "sym":
                env[T.ATOM_LIST[i][1]] = val
        base = list(sampler(999))
        if len(base) == len(names):
            cands.append([env.get(n, b) for n, b in zip(names, base)])
    for k in range(ntry):
        cands.append(list(sampler(k + 1000)))
    for inp in cands:
        if len(inp) != len(names) or any((x != x) or math.isinf(x) for x in inp):
            continue
        if guard and not pc_holds(list(guard), {n: x for n, x in zip(names, inp)}):
            continue
        try:
            out = h.native(fn, inp, nout, fbits)
        except Exception:
            continue
        errs, vals = numeric_errors([o for o in obl if o[0] == oname], names, inp, out, mp)
        e = errs.get(oname)
        if e is not None and not (e <= tol):
            l, r = vals[oname]
            return {"inputs": inp, "native": out, "obligation": oname, "lhs": str(l), "rhs": str(r), "err": e,
                    "obl_terms": [str(dict(zip(["lhs", "rhs"], [T.tstr(x, -50) for x in (o[1], o[2])]))) for o in obl if o[0] == oname][:1]}
    return None


def replay_file(path):
    """re-run a recorded violation: rebuild the wrapper natively from /repo's current tree and re-run the owning check's
    obligation on the recorded input"""
    d = json.load(open(path))
    if d.get("kind") == "memory" or "tu_text" not in d:
        print("replay: structural finding (%s); re-run the check to re-decide it" % d.get("key"))
        return 0
    h = Harness(d["tu_name"], d["tu_text"], d.get("extra", ()), native=True)
    out = h.native(d["fn"], d["inputs"], d["nout"], d.get("fbits", 64))
    print("replay %s: fn=%s inputs=%r" % (d["key"], d["fn"], d["inputs"]))
    print("  native now : %r" % (out,))
    print("  native then: %r" % (d.get("native"),))
    print("  expected %s = %s (was %s, err %.3g, tol %.1g)" % (d.get("obligation"), d.get("rhs"), d.get("lhs"), d.get("err", 0), d.get("tol", 0)))
    same = all((a == b) or (a != a and b != b) for a, b in zip(out, d.get("native", [])))
    if same:
        print("VIOLATION property=%s replay=%s" % (d["property"], path))
        return 1
    print("native output changed since the violation was recorded; re-run ./run %s to re-decide" % d["property"])
    return 0
