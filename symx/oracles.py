"""Independent oracles (DESIGN 3): matrix functions of hat(a)/ad(a) by Hermite interpolation on the spectrum
{0 (mult <=3), +-i theta}.  Closed forms use theta, sin(theta), cos(theta); Taylor forms use truncated series in
t = theta^2 with an explicit remainder symbol xi in [-1,1] (alternating series bound, valid for t <= 1)."""
from fractions import Fraction
from math import factorial
from . import terms as T, groups as G
from .terms import Const, Add, Sub, Mul, Div, Neg, Fn, Sym


def mpow(X, k):
    n = len(X)
    R = G.eye(n)
    for _ in range(k):
        R = G.mm(R, X)
    return R


def lincomb(coeffs, mats):
    n, m = len(mats[0]), len(mats[0][0])
    R = G.zeros(n, m)
    for c, M in zip(coeffs, mats):
        for i in range(n):
            for j in range(m):
                R[i][j] = Add(R[i][j], Mul(c, M[i][j]))
    return R


class Angle:
    """theta and its trig values for a rotation-part vector w (1 or 3 components)"""

    def __init__(self, w):
        self.w = list(w)
        if len(w) == 1:
            self.theta = w[0]
            self.t = Mul(w[0], w[0])
        else:
            self.t = G.dot(w, w)
            self.theta = Fn("sqrt", self.t)
        self.s = Fn("sin", self.theta)
        self.c = Fn("cos", self.theta)

    def coeff_closed(self, m):
        """g_m(theta) = sum_k (-1)^k theta^(2k) / (2k+m)!   (m>=1):  g1=sin/th, g2=(1-cos)/th^2, g3=(th-sin)/th^3,
        g4=(cos-1+th^2/2)/th^4, g5=(sin-th+th^3/6)/th^5, g6 = (1 - th^2/2 + th^4/24 - cos)/th^6 ..."""
        th = self.theta
        if m == 0:
            return self.c
        # partial Taylor sum of sin (odd m) or cos (even m)
        acc = Const(0)
        if m % 2 == 1:
            # sin th = sum_{j} (-1)^j th^(2j+1)/(2j+1)! ; g_m = (-1)^((m-1)/2) (sin - partial_{(m-1)/2 terms}) / th^m
            k = (m - 1) // 2
            part = Const(0)
            for j in range(k):
                part = Add(part, Mul(Const(Fraction((-1) ** j, factorial(2 * j + 1))), tpow(th, 2 * j + 1)))
            num = Sub(self.s, part)
            sign = (-1) ** k
        else:
            k = m // 2
            part = Const(0)
            for j in range(k):
                part = Add(part, Mul(Const(Fraction((-1) ** j, factorial(2 * j))), tpow(th, 2 * j)))
            num = Sub(self.c, part)
            sign = (-1) ** k
        r = Div(num, tpow(th, m))
        return r if sign == 1 else Neg(r)

    def coeff_series(self, m, nterms, xi):
        """same g_m as a truncated series in t with remainder xi * t^n/(2n+m)!, |xi|<=1"""
        t = self.t
        acc = Const(0)
        for k in range(nterms):
            acc = Add(acc, Mul(Const(Fraction((-1) ** k, factorial(2 * k + m))), tpow(t, k)))
        if xi is not None:
            acc = Add(acc, Mul(xi, Mul(Const(Fraction(1, factorial(2 * nterms + m))), tpow(t, nterms))))
        return acc


def tpow(x, k):
    r = Const(1)
    for _ in range(k):
        r = Mul(r, x)
    return r


def fexp_poly(X, ang, p, coeff):
    """f(X) for f = exp with nilpotency index <= p at 0 and simple eigenvalues +-i theta:
       exp(X) = sum_{k<p} X^k/k! + g_p(theta) X^p + g_{p+1}(theta) X^{p+1}"""
    mats = [mpow(X, k) for k in range(p + 2)]
    cs = [Const(Fraction(1, factorial(k))) for k in range(p)] + [coeff(p), coeff(p + 1)]
    return lincomb(cs, mats)


def phi_poly(X, ang, p, coeff, sign=-1):
    """phi(X) = sum_k (sign)^k X^k/(k+1)!  =  (1-e^{-X})/X for sign=-1 ((e^X-1)/X for sign=+1), X with minimal
    polynomial dividing X^p (X^2+theta^2):  sum_{k<p} (sign X)^k/(k+1)! + (sign)^p g_{p+1} X^p + (sign)^{p+1} g_{p+2} X^{p+1}"""
    mats = [mpow(X, k) for k in range(p + 2)]
    cs = [Const(Fraction(sign ** k, factorial(k + 1))) for k in range(p)]
    cs += [Mul(Const(sign ** p), coeff(p + 1)), Mul(Const(sign ** (p + 1)), coeff(p + 2))]
    return lincomb(cs, mats)


def group_blocks(g):
    """list of (part, rep_off, dof_off, dim_off) for Bundles, or the group itself"""
    if isinstance(g, G.Bundle):
        out = []
        for p, (ro, do, mo) in zip(g.parts, g.offsets()):
            for (q, r2, d2, m2) in group_blocks(p):
                out.append((q, ro + r2, do + d2, mo + m2))
        return out
    return [(g, 0, 0, 0)]


NIL_HAT = {"SO2": 0, "SO3": 1, "SE2": 2, "SE3": 2, "Galilei": 3}


def nil_index(g, which="hat"):
    """p such that X^p (X^2+theta^2) = 0 for X = hat(a) resp. ad(a)  (checked by an obligation, not assumed)"""
    if isinstance(g, G.SEK3):
        return 2
    if isinstance(g, G.Tn):
        return 2
    return NIL_HAT[g.name]


def exp_oracle(g, a, mode="closed", xis=None, nterms=3):
    """documented-matrix form of exp(a): list-of-lists of Terms.  mode per leaf block: 'closed' | 'series'
    (mode may be a dict leaf-index -> mode)."""
    M = G.zeros(g.dim, g.dim)
    for bi, (q, ro, do, mo) in enumerate(group_blocks(g)):
        ab = a[do:do + q.dof]
        md = mode[bi] if isinstance(mode, dict) else mode
        if isinstance(q, G.Tn):
            B = q.docM(ab)
        elif q.name == "C1":
            e = Fn("exp", ab[0])
            s, c = Fn("sin", ab[1]), Fn("cos", ab[1])
            B = [[Mul(e, c), Neg(Mul(e, s))], [Mul(e, s), Mul(e, c)]]
        else:
            X = q.hat(ab)
            ang = Angle([ab[i] for i in q.rot])
            p = 3  # over-interpolation is harmless; 3 covers every group here
            if md == "closed":
                B = fexp_poly(X, ang, p, ang.coeff_closed)
            else:
                xi = xis[bi]
                B = fexp_poly(X, ang, p, lambda m: ang.coeff_series(m, nterms, xi[m]))
        G.set_block(M, mo, mo, B)
    return M


def minpoly_residual(X, t, p):
    """X^p (X^2 + t I)"""
    n = len(X)
    X2 = G.mm(X, X)
    for i in range(n):
        X2[i][i] = Add(X2[i][i], t)
    return G.mm(mpow(X, p), X2)
