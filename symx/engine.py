"""Path exploration driver: run a wrapper  void f(const S* in, S* out)  on symbolic inputs over all feasible
paths (re-execution with decision prefixes)."""
import time
from . import interp, terms as T, solver
from .interp import Machine, PathAbort, Unsupported, MemError

FP64 = {"k": "fp", "bits": 64, "size": 8}
FP32 = {"k": "fp", "bits": 32, "size": 4}


class Path:
    def __init__(self):
        self.pc = []
        self.outs = None
        self.status = "ok"  # ok | abort | memerror | unsupported
        self.reason = ""
        self.writes = {}
        self.events = []
        self.steps = 0
        self.decisions = []
        self.calls = {}
        self.extra = {}

    def pc_str(self):
        return " & ".join(("%r" % c) if p else ("!%r" % c) for c, p in self.pc) or "true"


class Explorer:
    def __init__(self, mod, assumptions=(), stubs=None, max_paths=256, feas_timeout_ms=1500, fbits=64, use_feas=True):
        self.mod = mod
        self.assumptions = list(assumptions)
        self.stubs = dict(stubs or {})
        self.max_paths = max_paths
        self.feas = solver.Feasibility(self.assumptions, feas_timeout_ms) if use_feas else None
        if self.feas is not None:
            self.stubs.setdefault("int_candidates", self.feas.int_candidates)
        self.fbits = fbits
        self.total_steps = 0
        self.refuted = 0
        self.truncated = False

    def explore(self, fname, inputs, nout, setup=None, collect=None, in_pad=0, out_pad=0):
        """inputs: list of Term|float.  Returns list[Path].  setup(m, in_addr, out_addr) may prepare more memory
        and return the argument list; collect(m, path, in_addr, out_addr) may read extra results."""
        fty = FP64 if self.fbits == 64 else FP32
        sz = fty["size"]
        work = [[]]
        paths = []
        while work:
            if len(paths) >= self.max_paths:
                self.truncated = True
                break
            dec = work.pop()
            m = Machine(self.mod, decisions=dec, feas=self.feas, stubs=self.stubs)
            p = Path()
            try:
                m.run_ctors()
                m.writes = {}
                i = m.new_obj(sz * (len(inputs) + 2 * in_pad) or 1, "in", "in")
                o = m.new_obj(sz * (nout + 2 * out_pad) or 1, "out", "out")
                for k, x in enumerate(inputs):
                    m.store_raw(i, sz * (k + in_pad), sz, x)
                ia, oa = m.addr(i) + sz * in_pad, m.addr(o) + sz * out_pad
                p.extra["in_obj"] = i.id
                p.extra["out_obj"] = o.id
                args = setup(m, ia, oa) if setup else [ia, oa]
                m.run(fname, args)
                outs = []
                for k in range(nout):
                    outs.append(m.load(oa + sz * k, fty))
                p.raw_outs = outs
                p.outs = [m.lift(x, self.fbits) for x in outs]
                if collect:
                    collect(m, p, ia, oa)
            except PathAbort as e:
                p.status = "infeasible" if e.reason.startswith("infeasible path") else "abort"
                p.reason = e.reason
            except MemError as e:
                p.status = "memerror"
                p.reason = str(e)
            except Unsupported as e:
                p.status = "unsupported"
                p.reason = str(e)
            except T.PolyTooBig:
                p.status = "unsupported"
                p.reason = "normal form too large during feasibility check"
            except ZeroDivisionError as e:
                p.status = "abort"
                p.reason = "division by zero: %s" % e
            p.pc = list(m.pc)
            p.writes = m.writes
            p.events = m.events
            p.steps = m.steps
            p.decisions = list(m.decisions)
            p.calls = m.calls
            p.machine_objs = {k: (v.kind, v.name, v.size) for k, v in m.objs.items()}
            self.total_steps += m.steps
            self.refuted += m.refuted
            p.guard_writes = m.guard_writes
            if p.status == "infeasible":
                self.refuted += 1
            else:
                paths.append(p)
            work.extend(m.pending)
        return paths


def sym_inputs(names):
    return [T.Sym(n) for n in names]
