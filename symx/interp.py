"""symx interpreter: concrete control / pointers / integers, symbolic floating values (DESIGN 2.2).

Runs functions of an irdump JSON module.  Floating values are python floats (concrete) or Terms
(symbolic reals, layer R).  Branches on symbolic comparisons fork by re-execution with a decision
prefix.  Every load/store is bounds-checked; every store is recorded in the write-set."""
import json, math, struct, sys
from fractions import Fraction
from . import terms as T
from .terms import Term

OBJ_SHIFT = 36
OBJ_MASK = (1 << OBJ_SHIFT) - 1
FUNC_OBJ = 1  # pseudo object id for function addresses


class PathAbort(Exception):
    def __init__(self, reason):
        super().__init__(reason)
        self.reason = reason


class Unsupported(Exception):
    pass


class MemError(Exception):
    pass


class Undef:
    """value of an uninitialised floating-point location (LLVM undef): may be copied around, must not be observed"""
    def __repr__(self):
        return "undef"


UNDEF = Undef()


class Bits:
    """integer view of a symbolic float (term moved through an i64/i32 load/store or bitcast)"""
    __slots__ = ("term", "bits")

    def __init__(self, term, bits):
        self.term = term
        self.bits = bits


class Cond:
    """symbolic i1"""
    __slots__ = ("kind", "a", "b", "pred")

    def __init__(self, kind, a=None, b=None, pred=None):
        self.kind = kind  # 'cmp' | 'not' | 'and' | 'or' | 'xor'
        self.a = a
        self.b = b
        self.pred = pred

    def __repr__(self):
        if self.kind == "cmp":
            return "(%s %s %s)" % (T.tstr(self.a), self.pred, T.tstr(self.b))
        if self.kind == "not":
            return "!%r" % (self.a,)
        return "(%r %s %r)" % (self.a, self.kind, self.b)


def cond_not(c):
    if isinstance(c, int):
        return 1 - c
    if c.kind == "not":
        return c.a
    return Cond("not", c)


class Obj:
    __slots__ = ("id", "size", "cells", "kind", "name", "freed", "const")

    def __init__(self, id, size, kind, name=""):
        self.id = id
        self.size = size
        self.cells = {}
        self.kind = kind
        self.name = name
        self.freed = False
        self.const = False


def f32round(x):
    try:
        return struct.unpack("f", struct.pack("f", x))[0]
    except OverflowError:
        return math.copysign(math.inf, x)


def f2bits(x, bits):
    if bits == 64:
        return struct.unpack("<Q", struct.pack("<d", x))[0]
    return struct.unpack("<I", struct.pack("<f", x))[0]


def bits2f(v, bits):
    if bits == 64:
        return struct.unpack("<d", struct.pack("<Q", v & 0xFFFFFFFFFFFFFFFF))[0]
    return struct.unpack("<f", struct.pack("<I", v & 0xFFFFFFFF))[0]


def sext(v, bits):
    v &= (1 << bits) - 1
    return v - (1 << bits) if v >> (bits - 1) else v


class Module:
    def __init__(self, path):
        d = json.load(open(path))
        self.types = d["types"]
        self.funcs = {f["name"]: f for f in d["functions"]}
        self.globals = {g["name"]: g for g in d["globals"]}
        for f in self.funcs.values():
            if not f["decl"]:
                f["ninstr"] = sum(len(b) for b in f["blocks"])
        self.fn_index = {}
        self.fn_by_addr = {}
        for i, n in enumerate(self.funcs):
            a = (FUNC_OBJ << OBJ_SHIFT) + 16 * (i + 1)
            self.fn_index[n] = a
            self.fn_by_addr[a] = n


class Machine:
    """One execution (one path).  decisions: prefix of fork choices to follow."""

    def __init__(self, mod: Module, decisions=(), feas=None, mode="sym", stubs=None, max_steps=30_000_000):
        self.mod = mod
        self.types = mod.types
        self.objs = {}
        self.next_obj = 16
        self.decisions = list(decisions)
        self.ndec = 0
        self.pending = []  # alternative decision prefixes discovered on this run
        self.pc = []  # list of (Cond, polarity)
        self.feas = feas  # callable(pc_list, cond, polarity) -> True/False/None
        self.mode = mode
        self.stubs = stubs or {}
        self.steps = 0
        self.max_steps = max_steps
        self.writes = {}  # obj id -> set of (off,size)
        self.reads = {}  # obj id -> count
        self.gaddr = {}
        self.calls = {}  # function name -> count
        self.events = []  # notable events (guards, aborts, fptrunc, ...)
        self.refuted = 0
        self.uf_log = []
        self.fn_cache = {}
        self.depth = 0
        self.track_reads = False
        self.in_guard = 0
        self.guard_writes = {}
        self.block_trace = None
        self.trace_name = ''
        self._init_globals()

    # ------------------------------------------------------------------ memory
    def new_obj(self, size, kind, name=""):
        oid = self.next_obj
        self.next_obj += 1
        o = Obj(oid, size, kind, name)
        self.objs[oid] = o
        return o

    def addr(self, o, off=0):
        return (o.id << OBJ_SHIFT) + off

    def resolve(self, a, size, what):
        oid = a >> OBJ_SHIFT
        off = a & OBJ_MASK
        o = self.objs.get(oid)
        if o is None:
            raise MemError("%s through invalid pointer 0x%x" % (what, a))
        if o.freed:
            raise MemError("%s of freed object %s" % (what, o.name or o.id))
        if off + size > o.size:
            raise MemError("%s out of bounds: object %s size %d, access [%d,%d)" % (what, o.name or o.kind, o.size, off, off + size))
        return o, off

    def _init_globals(self):
        for name, g in self.mod.globals.items():
            o = self.new_obj(max(g["size"], 1), "global", name)
            o.const = g["const"]
            self.gaddr[name] = self.addr(o)
        for name, g in self.mod.globals.items():
            if g["init"] is not None:
                o = self.objs[self.gaddr[name] >> OBJ_SHIFT]
                self._write_const(o, 0, g["init"], g["ty"])

    def _write_const(self, o, off, c, tid):
        k = c[0]
        ty = self.types[tid]
        if k == "zero":
            self._zero(o, off, self.types[c[1]].get("size", 0))
        elif k == "cagg":
            aty = self.types[c[1]]
            if aty["k"] == "struct":
                for e, eo, et in zip(c[2], aty["offs"], aty["elems"]):
                    self._write_const(o, off + eo, e, et)
            else:
                es = aty["esize"]
                for i, e in enumerate(c[2]):
                    self._write_const(o, off + i * es, e, aty["elem"])
        elif k == "undef":
            pass
        else:
            v = self.const(c)
            self.store_raw(o, off, ty.get("size", 8), v)

    def _zero(self, o, off, n):
        # zero fill as 8-byte cells where aligned, bytes otherwise
        end = off + n
        self._clear(o, off, n)
        p = off
        while p < end:
            if p % 8 == 0 and p + 8 <= end:
                o.cells[p] = (8, 0)
                p += 8
            else:
                o.cells[p] = (1, 0)
                p += 1

    def _clear(self, o, off, size):
        """remove / split cells overlapping [off, off+size)"""
        cells = o.cells
        for p in range(max(0, off - 15), off + size):
            c = cells.get(p)
            if c is None:
                continue
            cs, cv = c
            if p + cs <= off:
                continue
            if p >= off and p + cs <= off + size:
                del cells[p]
                continue
            # partial overlap: split into bytes if concrete int, else error
            if isinstance(cv, float):
                cv = f2bits(cv, cs * 8)
            if isinstance(cv, int):
                del cells[p]
                for i in range(cs):
                    q = p + i
                    if not (off <= q < off + size):
                        cells[q] = (1, (cv >> (8 * i)) & 0xFF)
            else:
                # symbolic cell partially overwritten: drop it (reading the remainder is an error)
                del cells[p]

    def store_raw(self, o, off, size, v):
        c = o.cells.get(off)
        if c is None or c[0] != size:
            self._clear(o, off, size)
        else:
            pass
        # also clear cells strictly inside
        if size > 1:
            cells = o.cells
            for p in range(off + 1, off + size):
                if p in cells:
                    self._clear(o, off, size)
                    break
            else:
                # cells starting before off overlapping?
                for p in range(max(0, off - 15), off):
                    cc = cells.get(p)
                    if cc is not None and p + cc[0] > off:
                        self._clear(o, off, size)
                        break
        else:
            for p in range(max(0, off - 15), off):
                cc = o.cells.get(p)
                if cc is not None and p + cc[0] > off:
                    self._clear(o, off, size)
                    break
        o.cells[off] = (size, v)

    def store(self, a, size, v):
        o, off = self.resolve(a, size, "store")
        if o.const and self.depth > 0:
            raise MemError("store to constant global %s" % o.name)
        self.store_raw(o, off, size, v)
        tab = self.guard_writes if self.in_guard > 0 else self.writes
        w = tab.get(o.id)
        if w is None:
            w = tab[o.id] = set()
        w.add((off, size))

    def load_raw(self, a, size):
        o, off = self.resolve(a, size, "load")
        if self.track_reads:
            self.reads.setdefault(o.id, set()).add((off, size))
        c = o.cells.get(off)
        if c is not None and c[0] == size:
            return c[1]
        # assemble from concrete bytes
        val = 0
        p = off
        end = off + size
        cells = o.cells
        while p < end:
            c = cells.get(p)
            if c is None:
                # look for a covering cell starting earlier
                found = False
                for q in range(p - 1, max(-1, p - 16), -1):
                    cc = cells.get(q)
                    if cc is not None:
                        if q + cc[0] > p:
                            cs, cv = cc
                            if isinstance(cv, float):
                                cv = f2bits(cv, cs * 8)
                            if not isinstance(cv, int):
                                raise Unsupported("partial load of symbolic cell")
                            n = min(q + cs, end) - p
                            chunk = (cv >> (8 * (p - q))) & ((1 << (8 * n)) - 1)
                            val |= chunk << (8 * (p - off))
                            p += n
                            found = True
                        break
                if not found:
                    if o.kind == "global" and self.mod.globals.get(o.name, {}).get("init") is None:
                        # load from an external global (e.g. a VTT entry hoisted out of an error path): opaque value
                        self.events.append(("extern-global-load", o.name))
                        return 0
                    if size in (4, 8) and o.kind in ("heap", "stack", "tmp") and getattr(self, "_fp_load", False):
                        self.events.append(("undef-fp-load", o.name or o.kind))
                        return UNDEF
                    if size == 1 and o.kind == "stack":
                        # copy of an empty class object (clang emits a 1-byte load of an uninitialised alloca): value is undef
                        self.events.append(("undef-byte-load", o.name))
                        return 0
                    raise MemError("load of uninitialised memory: object %s off %d size %d" % (o.name or o.kind, off, size))
                continue
            cs, cv = c
            if isinstance(cv, float):
                cv = f2bits(cv, cs * 8)
            if not isinstance(cv, int):
                raise Unsupported("partial load of symbolic cell")
            n = min(p + cs, end) - p
            val |= (cv & ((1 << (8 * n)) - 1)) << (8 * (p - off))
            p += n
        return val

    def load(self, a, ty):
        k = ty["k"]
        size = ty["size"]
        self._fp_load = (k == "fp")
        try:
            v = self.load_raw(a, size)
        finally:
            self._fp_load = False
        if v is UNDEF:
            return v
        if k == "fp":
            if isinstance(v, int):
                return bits2f(v, ty["bits"])
            if isinstance(v, Bits):
                return v.term
            return v
        if k in ("int", "ptr"):
            if isinstance(v, float):
                return f2bits(v, size * 8)
            if isinstance(v, Term):
                return Bits(v, size * 8)
            if isinstance(v, int) and k == "int":
                return v & ((1 << ty["bits"]) - 1)
            return v
        if k == "struct":
            return [self.load(a + o, self.types[e]) for o, e in zip(ty["offs"], ty["elems"])]
        if k == "array":
            return [self.load(a + i * ty["esize"], self.types[ty["elem"]]) for i in range(ty["n"])]
        raise Unsupported("load of type %s" % k)

    def store_typed(self, a, ty, v):
        k = ty["k"]
        if k == "struct":
            for o, e, x in zip(ty["offs"], ty["elems"], v):
                if x is not None:
                    self.store_typed(a + o, self.types[e], x)
            return
        if k == "array":
            for i, x in enumerate(v):
                if x is not None:
                    self.store_typed(a + i * ty["esize"], self.types[ty["elem"]], x)
            return
        if k == "vec":
            raise Unsupported("vector store")
        if isinstance(v, Bits) and k == "int":
            pass
        if isinstance(v, Cond):
            v = 1 if self.decide(v) else 0
        self.store(a, ty["size"], v)

    def memcpy(self, dst, src, n):
        if n == 0:
            return
        so, soff = self.resolve(src, n, "memcpy-read")
        do, doff = self.resolve(dst, n, "memcpy-write")
        if self.track_reads:
            self.reads.setdefault(so.id, set()).add((soff, n))
        # collect source cells
        items = []
        p = soff
        end = soff + n
        cells = so.cells
        # cells starting before soff overlapping
        for q in range(max(0, soff - 15), soff):
            c = cells.get(q)
            if c is not None and q + c[0] > soff:
                cs, cv = c
                if isinstance(cv, float):
                    cv = f2bits(cv, cs * 8)
                if not isinstance(cv, int):
                    raise Unsupported("memcpy splits symbolic cell")
                for i in range(soff - q, min(cs, end - q)):
                    items.append((q + i - soff, 1, (cv >> (8 * i)) & 0xFF))
        for p in range(soff, end):
            c = cells.get(p)
            if c is None:
                continue
            cs, cv = c
            if p + cs <= end:
                items.append((p - soff, cs, cv))
            else:
                if isinstance(cv, float):
                    cv = f2bits(cv, cs * 8)
                if not isinstance(cv, int):
                    raise Unsupported("memcpy splits symbolic cell")
                for i in range(end - p):
                    items.append((p + i - soff, 1, (cv >> (8 * i)) & 0xFF))
        if do.const and self.depth > 0:
            raise MemError("memcpy to constant global %s" % do.name)
        self._clear(do, doff, n)
        for off, cs, cv in items:
            do.cells[doff + off] = (cs, cv)
        w = self.writes.setdefault(do.id, set())
        for off, cs, cv in items:
            w.add((doff + off, cs))

    # ------------------------------------------------------------------ values
    def const(self, c):
        k = c[0]
        if k == "ci":
            return int(c[2])
        if k == "cf":
            return bits2f(int(c[2]), c[1]) if c[1] in (32, 64) else float("nan")
        if k == "null":
            return 0
        if k == "g":
            return self.gaddr[c[1]]
        if k == "fn":
            return self.mod.fn_index[c[1]]
        if k == "undef":
            ty = self.types[c[1]]
            return self.undef(ty)
        if k == "zero":
            return self.zero_of(self.types[c[1]])
        if k == "cagg":
            return [self.const(e) for e in c[2]]
        if k == "cgep":
            g = c[1]
            a = self.const(g["base"]) + g["off"]
            for (op, stride) in g["vars"]:
                a += sext(self.const(op), 64) * stride
            return a
        if k == "ce":
            opc = c[1]
            ops = [self.const(x) for x in c[3]]
            if opc in ("bitcast", "inttoptr", "ptrtoint", "addrspacecast"):
                return ops[0]
            if opc == "add":
                return (ops[0] + ops[1]) & 0xFFFFFFFFFFFFFFFF
            if opc == "sub":
                return (ops[0] - ops[1]) & 0xFFFFFFFFFFFFFFFF
            raise Unsupported("constexpr " + opc)
        raise Unsupported("constant kind " + k)

    def undef(self, ty):
        k = ty["k"]
        if k == "struct":
            return [self.undef(self.types[e]) for e in ty["elems"]]
        if k == "array":
            return [self.undef(self.types[ty["elem"]]) for _ in range(ty["n"])]
        if k == "fp":
            return 0.0
        return 0

    def zero_of(self, ty):
        k = ty["k"]
        if k == "struct":
            return [self.zero_of(self.types[e]) for e in ty["elems"]]
        if k == "array":
            return [self.zero_of(self.types[ty["elem"]]) for _ in range(ty["n"])]
        if k == "fp":
            return 0.0
        return 0

    # ------------------------------------------------------------------ forks
    def decide(self, c):
        """Resolve a symbolic condition to a concrete bool on this path."""
        if isinstance(c, int):
            return bool(c)
        if c.kind == "not":
            return not self.decide(c.a)
        if c.kind == "and":
            return self.decide(c.a) and self.decide(c.b)
        if c.kind == "or":
            return self.decide(c.a) or self.decide(c.b)
        if c.kind == "xor":
            return self.decide(c.a) != self.decide(c.b)
        # atomic comparison
        k = self.ndec
        self.ndec += 1
        if k < len(self.decisions):
            ch = self.decisions[k]
            self.pc.append((c, ch))
            return ch
        # new fork point
        ft = ff = None
        if self.feas is not None:
            ft = self.feas(self.pc, c, True)
            ff = self.feas(self.pc, c, False)
        if ft is False and ff is False:
            raise PathAbort("infeasible path (both sides refuted)")
        if ft is False:
            ch = False
            self.refuted += 1
        elif ff is False:
            ch = True
            self.refuted += 1
        else:
            ch = True
            self.pending.append(self.decisions + [False])
        self.decisions.append(ch)
        self.pc.append((c, ch))
        return ch

    def decide_int(self, term, lo=None, hi=None, what="fptosi"):
        """fork over integer values trunc(term) admissible under the path condition"""
        k = self.ndec
        self.ndec += 1
        if k < len(self.decisions):
            n = self.decisions[k]
        else:
            cands = self.stubs["int_candidates"](self.pc, term) if "int_candidates" in self.stubs else None
            if cands is None:
                raise Unsupported("fptosi of symbolic value without candidate enumerator")
            if not cands:
                raise PathAbort("no admissible integer for " + what)
            n = cands[0]
            for alt in cands[1:]:
                self.pending.append(self.decisions + [alt])
            self.decisions.append(n)
        # trunc toward zero: n >= 0: n <= x < n+1 ; n < 0: n-1 < x <= n ; n == 0: -1 < x < 1
        tn = T.Const(n)
        if n > 0:
            self.pc.append((Cond("cmp", term, tn, "oge"), True))
            self.pc.append((Cond("cmp", term, T.Const(n + 1), "olt"), True))
        elif n < 0:
            self.pc.append((Cond("cmp", term, tn, "ole"), True))
            self.pc.append((Cond("cmp", term, T.Const(n - 1), "ogt"), True))
        else:
            self.pc.append((Cond("cmp", term, T.Const(1), "olt"), True))
            self.pc.append((Cond("cmp", term, T.Const(-1), "ogt"), True))
        return n

    # ------------------------------------------------------------------ fp helpers
    def fbin(self, op, a, b, bits):
        if a is UNDEF or b is UNDEF:
            return UNDEF
        if isinstance(a, float) and isinstance(b, float):
            try:
                if op == "fadd":
                    r = a + b
                elif op == "fsub":
                    r = a - b
                elif op == "fmul":
                    r = a * b
                elif op == "fdiv":
                    if b == 0.0:
                        if a == 0.0 or a != a:
                            r = math.nan
                        else:
                            r = math.copysign(math.inf, a) * math.copysign(1.0, b)
                    else:
                        r = a / b
                elif op == "frem":
                    r = math.fmod(a, b)
                else:
                    raise Unsupported(op)
            except OverflowError:
                r = math.inf
            return f32round(r) if bits == 32 else r
        a = self.lift(a, bits)
        b = self.lift(b, bits)
        if op == "fadd":
            return T.Add(a, b)
        if op == "fsub":
            return T.Sub(a, b)
        if op == "fmul":
            return T.Mul(a, b)
        if op == "fdiv":
            if b.op == "const" and b.args[0] == 0:
                raise PathAbort("division by literal zero")
            self.events.append(("div", b))
            return T.Div(a, b)
        raise Unsupported(op)

    def lift(self, x, bits=64):
        if isinstance(x, Term):
            return x
        if x is UNDEF:
            raise MemError("uninitialised floating-point value observed (compared, converted or returned)")
        if isinstance(x, float):
            if math.isinf(x) or math.isnan(x):
                raise PathAbort("non-finite value meets symbolic arithmetic")
            return T.Const(T.snap(x, bits))
        if isinstance(x, Bits):
            return x.term
        if isinstance(x, int):
            return T.Const(x)
        raise Unsupported("lift %r" % (x,))

    def fcmp(self, pred, a, b):
        if a is UNDEF or b is UNDEF:
            raise MemError("branch on an uninitialised floating-point value")
        if isinstance(a, float) and isinstance(b, float):
            un = (a != a) or (b != b)
            base = pred[1:] if pred[0] in "ou" and pred not in ("ord", "uno", "one", "oeq") else pred
            if pred == "ord":
                return int(not un)
            if pred == "uno":
                return int(un)
            if pred == "true":
                return 1
            if pred == "false":
                return 0
            p = pred[1:]
            r = {"eq": a == b, "ne": a != b, "gt": a > b, "ge": a >= b, "lt": a < b, "le": a <= b}[p]
            if un:
                return int(pred[0] == "u")
            return int(r)
        if pred in ("ord", "true"):
            return 1
        if pred in ("uno", "false"):
            return 0
        # a concrete infinity against a symbolic (finite real) value: decided without the solver
        for x, y, flip in ((a, b, False), (b, a, True)):
            if isinstance(x, float) and math.isinf(x) and not isinstance(y, float):
                big = x > 0
                p = pred[1:]
                if flip:
                    p = {"gt": "lt", "ge": "le", "lt": "gt", "le": "ge"}.get(p, p)
                return int({"eq": False, "ne": True, "gt": big, "ge": big, "lt": not big, "le": not big}[p])
        a = self.lift(a)
        b = self.lift(b)
        if a.op == "const" and b.op == "const":
            x, y = a.args[0], b.args[0]
            p = pred[1:]
            return int({"eq": x == y, "ne": x != y, "gt": x > y, "ge": x >= y, "lt": x < y, "le": x <= y}[p])
        return Cond("cmp", a, b, "o" + pred[1:])

    # ------------------------------------------------------------------ execution
    def run(self, fname, args):
        f = self.mod.funcs.get(fname)
        if f is None:
            raise Unsupported("no function " + fname)
        return self.call_function(f, args)

    def run_ctors(self):
        g = self.mod.globals.get("llvm.global_ctors")
        if not g or not g["init"] or g["init"][0] != "cagg":
            return
        for e in g["init"][2]:
            fn = e[2][1]
            if fn[0] == "fn":
                self.depth_save = self.depth
                self.run(fn[1], [])

    def call_function(self, f, args):
        if f["decl"]:
            return self.external(f["name"], args, f)
        name = f["name"]
        self.calls[name] = self.calls.get(name, 0) + 1
        st = self.stubs.get("fn:" + name)
        if st is not None:
            return st(self, args)
        self.depth += 1
        if self.depth > 400:
            raise Unsupported("call depth")
        try:
            return self._exec(f, args)
        finally:
            self.depth -= 1

    def _exec(self, f, args):
        vals = [None] * f["nvals"]
        for i, a in enumerate(args[: len(f["args"])]):
            vals[i] = a
        blocks = f["blocks"]
        types = self.types
        const = self.const
        allocas = []
        bi = 0
        prev = -1

        def val(o):
            if o[0] == "v":
                return vals[o[1]]
            return const(o)

        try:
            tr = self.block_trace if self.block_trace is not None and self.trace_name in f["name"] else None
            while True:
                blk = blocks[bi]
                if tr is not None:
                    tr.append(bi)
                # phi nodes: evaluate simultaneously
                n = 0
                if blk and blk[0]["op"] == "phi":
                    newv = []
                    for ins in blk:
                        if ins["op"] != "phi":
                            break
                        for (o, b) in ins["inc"]:
                            if b == prev:
                                newv.append((ins["id"], val(o)))
                                break
                        else:
                            raise Unsupported("phi without incoming for pred")
                        n += 1
                    for i, v in newv:
                        vals[i] = v
                self.steps += len(blk)
                if self.steps > self.max_steps:
                    raise PathAbort("step budget exhausted")
                for ins in blk[n:]:
                    op = ins["op"]
                    if op == "load":
                        vals[ins["id"]] = self.load(val(ins["ptr"]), types[ins["ty"]])
                    elif op == "store":
                        self.store_typed(val(ins["ptr"]), types[ins["vty"]], val(ins["val"]))
                    elif op == "getelementptr":
                        g = ins["gep"]
                        a = val(g["base"]) + g["off"]
                        for (o, stride) in g["vars"]:
                            iv = val(o)
                            if not isinstance(iv, int):
                                raise Unsupported("symbolic GEP index")
                            bits = 64
                            a += sext(iv, bits) * stride
                        vals[ins["id"]] = a & ((1 << 64) - 1) if a >= 0 else a
                    elif op in ("fadd", "fsub", "fmul", "fdiv", "frem"):
                        o = ins["ops"]
                        vals[ins["id"]] = self.fbin(op, val(o[0]), val(o[1]), types[ins["ty"]]["bits"])
                    elif op == "fneg":
                        x = val(ins["ops"][0])
                        vals[ins["id"]] = UNDEF if x is UNDEF else (-x if isinstance(x, float) else T.Neg(self.lift(x)))
                    elif op == "br":
                        prev = bi
                        if "cond" in ins:
                            c = val(ins["cond"])
                            if not isinstance(c, int):
                                c = self.decide(c)
                            bi = ins["t"] if c else ins["f"]
                        else:
                            bi = ins["t"]
                        break
                    elif op == "bitcast":
                        x = val(ins["ops"][0])
                        dt = types[ins["ty"]]
                        st = types[ins["sty"]]
                        if dt["k"] == "fp" and st["k"] == "int":
                            x = x.term if isinstance(x, Bits) else bits2f(x, dt["bits"])
                        elif dt["k"] == "int" and st["k"] == "fp":
                            x = Bits(x, dt["bits"]) if isinstance(x, Term) else f2bits(x, dt["bits"])
                        vals[ins["id"]] = x
                    elif op == "call" or op == "invoke":
                        r = self.do_call(ins, val)
                        vals[ins["id"]] = r
                        if op == "invoke":
                            prev = bi
                            bi = ins["normal"]
                            break
                    elif op == "icmp":
                        o = ins["ops"]
                        vals[ins["id"]] = self.icmp(ins["pred"], val(o[0]), val(o[1]), types[ins["oty"]])
                    elif op == "fcmp":
                        o = ins["ops"]
                        vals[ins["id"]] = self.fcmp(ins["pred"], val(o[0]), val(o[1]))
                    elif op == "phi":
                        raise Unsupported("phi in middle of block")
                    elif op == "ret":
                        return val(ins["ops"][0]) if ins["ops"] else None
                    elif op == "alloca":
                        cnt = val(ins["n"])
                        ob = self.new_obj(max(1, ins["asize"] * cnt), "stack", f["name"])
                        allocas.append(ob)
                        vals[ins["id"]] = self.addr(ob)
                    elif op == "select":
                        o = ins["ops"]
                        c = val(o[0])
                        if not isinstance(c, int):
                            c = self.decide(c)
                        vals[ins["id"]] = val(o[1]) if c else val(o[2])
                    elif op == "switch":
                        c = val(ins["cond"])
                        if not isinstance(c, int):
                            raise Unsupported("symbolic switch")
                        prev = bi
                        bi = ins["default"]
                        for cv, b in ins["cases"]:
                            if int(cv[2]) == c:
                                bi = b
                                break
                        break
                    elif op == "unreachable":
                        raise PathAbort("unreachable executed in " + f["name"])
                    else:
                        try:
                            vals[ins["id"]] = self.misc(ins, val)
                        except Unsupported as e:
                            if "unmodelled aggregate" in str(e) and "in function" not in str(e):
                                src = [i2 for b2 in blocks for i2 in b2 if i2.get("id") == ins["ops"][0][1]]
                                raise Unsupported("%s in function %s, produced by %r" % (e, f["name"][:100], [(i2.get("op"), i2.get("callee")) for i2 in src][:2]))
                            raise
                else:
                    raise Unsupported("block without terminator")
        finally:
            for ob in allocas:
                ob.freed = True
                ob.cells = {}

    def icmp(self, pred, a, b, ty):
        if isinstance(a, Cond) or isinstance(b, Cond):
            # comparisons of i1 values
            if isinstance(b, int) and pred in ("eq", "ne"):
                r = a if (b == 1) == (pred == "eq") else cond_not(a)
                return r
            a = int(self.decide(a)) if isinstance(a, Cond) else a
            b = int(self.decide(b)) if isinstance(b, Cond) else b
        if isinstance(a, Bits) or isinstance(b, Bits):
            raise Unsupported("icmp on float bits")
        bits = ty.get("bits", 64)
        if pred == "eq":
            return int(a == b)
        if pred == "ne":
            return int(a != b)
        if pred[0] == "s":
            a, b = sext(a, bits), sext(b, bits)
        p = pred[1:]
        return int({"gt": a > b, "ge": a >= b, "lt": a < b, "le": a <= b}[p])

    def misc(self, ins, val):
        op = ins["op"]
        types = self.types
        ty = types[ins["ty"]]
        if op in ("add", "sub", "mul", "and", "or", "xor", "shl", "lshr", "ashr", "udiv", "sdiv", "urem", "srem"):
            a = val(ins["ops"][0])
            b = val(ins["ops"][1])
            bits = ty["bits"]
            if isinstance(a, Cond) or isinstance(b, Cond):
                if bits == 1 and op in ("and", "or", "xor"):
                    if isinstance(a, int):
                        a, b = b, a
                    if isinstance(b, int):
                        if op == "and":
                            return a if b else 0
                        if op == "or":
                            return 1 if b else a
                        return cond_not(a) if b else a
                    return Cond(op, a, b)
                a = int(self.decide(a)) if isinstance(a, Cond) else a
                b = int(self.decide(b)) if isinstance(b, Cond) else b
            if isinstance(a, Bits) or isinstance(b, Bits):
                # sign-bit manipulation idioms
                if isinstance(a, int):
                    a, b = b, a
                if isinstance(b, int):
                    sign = 1 << (a.bits - 1)
                    if op == "xor" and b == sign:
                        return Bits(T.Neg(a.term), a.bits)
                    if op == "and" and b == sign - 1:
                        return Bits(self.fabs(a.term), a.bits)
                raise Unsupported("integer op on float bits: " + op)
            mask = (1 << bits) - 1
            if op == "add":
                return (a + b) & mask
            if op == "sub":
                return (a - b) & mask
            if op == "mul":
                return (a * b) & mask
            if op == "and":
                return a & b
            if op == "or":
                return a | b
            if op == "xor":
                return a ^ b
            if op == "shl":
                return (a << b) & mask if b < bits else 0
            if op == "lshr":
                return (a >> b) if b < bits else 0
            if op == "ashr":
                return (sext(a, bits) >> min(b, bits - 1)) & mask
            if op == "udiv":
                if b == 0:
                    raise PathAbort("integer division by zero")
                return a // b
            if op == "urem":
                if b == 0:
                    raise PathAbort("integer division by zero")
                return a % b
            if op == "sdiv":
                if b == 0:
                    raise PathAbort("integer division by zero")
                x, y = sext(a, bits), sext(b, bits)
                q = abs(x) // abs(y)
                if (x < 0) != (y < 0):
                    q = -q
                return q & mask
            if op == "srem":
                if b == 0:
                    raise PathAbort("integer division by zero")
                x, y = sext(a, bits), sext(b, bits)
                r = abs(x) % abs(y)
                if x < 0:
                    r = -r
                return r & mask
        if op in ("zext", "sext", "trunc"):
            x = val(ins["ops"][0])
            sb = types[ins["sty"]]["bits"]
            if isinstance(x, Cond):
                x = int(self.decide(x))
            if isinstance(x, Bits):
                raise Unsupported("int cast of float bits")
            if op == "zext":
                return x
            if op == "sext":
                return sext(x, sb) & ((1 << ty["bits"]) - 1)
            return x & ((1 << ty["bits"]) - 1)
        if op in ("ptrtoint", "inttoptr", "addrspacecast", "freeze"):
            x = val(ins["ops"][0])
            if op == "ptrtoint":
                return x & ((1 << ty["bits"]) - 1)
            return x
        if op in ("sitofp", "uitofp"):
            x = val(ins["ops"][0])
            if isinstance(x, Cond):
                x = int(self.decide(x))
            sb = types[ins["sty"]]["bits"]
            if op == "sitofp":
                x = sext(x, sb)
            r = float(x)
            return f32round(r) if ty["bits"] == 32 else r
        if op in ("fptosi", "fptoui"):
            x = val(ins["ops"][0])
            if isinstance(x, float):
                if x != x or math.isinf(x):
                    raise PathAbort("fptosi of non-finite value (UB)")
                return int(x) & ((1 << ty["bits"]) - 1)
            x = self.lift(x)
            if x.op == "const":
                q = x.args[0]
                n = int(q)  # trunc toward zero
                return n & ((1 << ty["bits"]) - 1)
            n = self.decide_int(x)
            return n & ((1 << ty["bits"]) - 1)
        if op == "fpext":
            x = val(ins["ops"][0])
            return x
        if op == "fptrunc":
            x = val(ins["ops"][0])
            if isinstance(x, float):
                return f32round(x) if ty["bits"] == 32 else x
            self.events.append(("fptrunc", x))
            return x
        if op == "extractvalue":
            x = val(ins["ops"][0])
            if x is None:
                raise Unsupported("extractvalue of an unmodelled aggregate (value %r)" % (ins.get("ops"),))
            for i in ins["idx"]:
                x = x[i]
            return x
        if op == "insertvalue":
            agg = val(ins["ops"][0])
            v = val(ins["ops"][1])

            def cp(a):
                return [cp(e) if isinstance(e, list) else e for e in a]

            agg = cp(agg)
            t = agg
            for i in ins["idx"][:-1]:
                t = t[i]
            t[ins["idx"][-1]] = v
            return agg
        if op == "atomicrmw":
            p = val(ins["ptr"])
            v = val(ins["val"])
            old = self.load(p, ty)
            k = ins["rmw"]
            bits = ty["bits"]
            mask = (1 << bits) - 1
            new = {"add": (old + v) & mask, "sub": (old - v) & mask, "xchg": v, "and": old & v, "or": old | v, "xor": old ^ v}.get(k)
            if new is None:
                raise Unsupported("atomicrmw " + k)
            self.store(p, ty["size"], new)
            self.events.append(("atomic", p))
            return old
        if op == "cmpxchg":
            p = val(ins["ptr"])
            sty = types[ty["elems"][0]]
            old = self.load(p, sty)
            if old == val(ins["cmp"]):
                self.store(p, sty["size"], val(ins["new"]))
                return [old, 1]
            return [old, 0]
        if op == "fence":
            return None
        if op == "landingpad":
            raise PathAbort("landingpad reached")
        if op == "resume":
            raise PathAbort("resume")
        raise Unsupported("opcode " + op)

    def fabs(self, t):
        t = self.lift(t)
        if t.op == "const":
            return T.Const(abs(t.args[0]))
        c = Cond("cmp", t, T.Const(0), "oge")
        return t if self.decide(c) else T.Neg(t)

    # ------------------------------------------------------------------ calls
    def do_call(self, ins, val):
        callee = ins["callee"]
        args = [val(a) for a in ins["args"]]
        if callee[0] == "fn":
            name = callee[1]
        elif callee[0] == "asm":
            return None
        else:
            a = val(callee)
            name = self.mod.fn_by_addr.get(a)
            if name is None:
                raise MemError("indirect call through invalid function pointer 0x%x" % a)
        f = self.mod.funcs[name]
        if f["decl"]:
            return self.external(name, args, f, ins)
        ov = DEFINED_STUBS.get(name)
        if ov is not None:
            self.calls[name] = self.calls.get(name, 0) + 1
            return ov(self, args)
        return self.call_function(f, args)

    def malloc(self, n, kind="heap"):
        o = self.new_obj(max(1, n), kind)
        return self.addr(o)

    def external(self, name, args, f, ins=None):
        self.calls[name] = self.calls.get(name, 0) + 1
        st = self.stubs.get("fn:" + name)
        if st is not None:
            return st(self, args)
        h = EXTERNALS.get(name)
        if h is not None:
            return h(self, args)
        if name.startswith("llvm."):
            base = name.split(".")[1]
            h = INTRINSICS.get(base)
            if h is not None:
                return h(self, args, name)
        for pre, h in PREFIX_EXTERNALS:
            if name.startswith(pre):
                return h(self, args)
        uf = self.stubs.get("uf")
        if uf is not None:
            return uf(self, name, args, f)
        raise Unsupported("external function " + name)


# ---------------------------------------------------------------------------------------------- externals
def _math1(fname):
    def h(m, args, _n=None):
        x = args[0]
        if isinstance(x, float):
            try:
                r = getattr(math, fname)(x)
            except (ValueError, OverflowError):
                r = math.nan
            return r
        x = m.lift(x)
        if x.op == "const":
            q = x.args[0]
            if fname == "sqrt":
                # exact rational square roots stay exact
                from math import isqrt
                if q >= 0:
                    n, d = q.numerator, q.denominator
                    if isqrt(n) ** 2 == n and isqrt(d) ** 2 == d:
                        return T.Const(Fraction(isqrt(n), isqrt(d)))
            if q == 0 and fname in ("sin", "tan"):
                return T.Const(0)
            if q == 0 and fname in ("cos", "exp"):
                return T.Const(1)
            if q == 1 and fname == "log":
                return T.Const(0)
        if fname == "sqrt" and x.op != "const":
            # sqrt of a perfect square c^2 m^2 -> |c m| (forks on the sign unless it is known)
            try:
                n, d = T.canon_rf(T.nf(x))
            except T.PolyTooBig:
                n = d = None
            if n is not None and len(n) == 1 and len(d) == 1:
                (mn, cn), = n.items()
                (md, cd), = d.items()
                r = T._is_square_q(cn / cd)
                if r is not None and all(e % 2 == 0 for _, e in mn) and all(e % 2 == 0 for _, e in md) and (mn or md):
                    if T._sqrt_simplify((n, d)) is None:
                        root = T.rf_to_term(({tuple((v, e // 2) for v, e in mn): r}, {tuple((v, e // 2) for v, e in md): Fraction(1)}))
                        return m.fabs(root)
        return T.Fn(fname, x)

    return h


def _math1f(fname):
    g = _math1(fname)

    def h(m, args, _n=None):
        r = g(m, args)
        return f32round(r) if isinstance(r, float) else r

    return h


def _tan(m, args, _n=None):
    x = args[0]
    if isinstance(x, float):
        return math.tan(x)
    x = m.lift(x)
    if x.op == "const" and x.args[0] == 0:
        return T.Const(0)
    return T.Div(T.Fn("sin", x), T.Fn("cos", x))


def _atan2(m, args, _n=None):
    y, x = args
    if isinstance(x, float) and isinstance(y, float):
        return math.atan2(y, x)
    return T.Fn("atan2", m.lift(y), m.lift(x))


def _pow(m, args, _n=None):
    x, y = args
    if isinstance(x, float) and isinstance(y, float):
        try:
            return math.pow(x, y)
        except (ValueError, OverflowError):
            return math.nan
    if isinstance(y, float) and y == int(y) and abs(y) <= 16:
        n = int(y)
        x = m.lift(x)
        r = T.Const(1)
        for _ in range(abs(n)):
            r = T.Mul(r, x)
        return r if n >= 0 else T.Div(T.Const(1), r)
    return T.Fn("pow", m.lift(x), m.lift(y))


def _powi(m, args, _n=None):
    x, n = args
    n = sext(n, 32)
    if isinstance(x, float):
        return x ** n
    x = m.lift(x)
    r = T.Const(1)
    for _ in range(abs(n)):
        r = T.Mul(r, x)
    return r if n >= 0 else T.Div(T.Const(1), r)


def _fabs(m, args, _n=None):
    x = args[0]
    if isinstance(x, float):
        return abs(x)
    return m.fabs(x)


def _minmax(kind):
    def h(m, args, _n=None):
        a, b = args
        if isinstance(a, float) and isinstance(b, float):
            if a != a:
                return b
            if b != b:
                return a
            return min(a, b) if kind == "min" else max(a, b)
        a = m.lift(a)
        b = m.lift(b)
        c = Cond("cmp", a, b, "olt")
        lt = m.decide(c)
        if kind == "min":
            return a if lt else b
        return b if lt else a

    return h


def _memcpy(m, args, _n=None):
    m.memcpy(args[0], args[1], args[2])
    return args[0]


def _memmove(m, args, _n=None):
    # stage through a temporary
    n = args[2]
    if n == 0:
        return args[0]
    tmp = m.malloc(n, "tmp")
    m.memcpy(tmp, args[1], n)
    m.memcpy(args[0], tmp, n)
    m.objs[tmp >> OBJ_SHIFT].freed = True
    return args[0]


def _memset(m, args, _n=None):
    p, v, n = args[0], args[1] & 0xFF, args[2]
    if n == 0:
        return p
    o, off = m.resolve(p, n, "memset")
    if v == 0:
        m._zero(o, off, n)
    else:
        m._clear(o, off, n)
        for i in range(n):
            o.cells[off + i] = (1, v)
    m.writes.setdefault(o.id, set()).add((off, n))
    return p


def _malloc(m, args, _n=None):
    return m.malloc(args[0])


def _free(m, args, _n=None):
    p = args[0]
    if p == 0:
        return None
    o = m.objs.get(p >> OBJ_SHIFT)
    if o is None or (p & OBJ_MASK) != 0:
        raise MemError("free of invalid pointer")
    if o.freed:
        raise MemError("double free")
    o.freed = True
    o.cells = {}
    return None


def _realloc(m, args, _n=None):
    p, n = args
    q = m.malloc(n)
    if p:
        o = m.objs[p >> OBJ_SHIFT]
        m.memcpy(q, p, min(n, o.size))
        o.freed = True
    return q


def _posix_memalign(m, args, _n=None):
    q = m.malloc(args[2])
    m.store(args[0], 8, q)
    return 0


def _guard_acquire(m, args, _n=None):
    b = m.load_raw(args[0], 1)
    m.events.append(("guard_acquire", args[0]))
    if b & 1:
        return 0
    m.in_guard += 1
    return 1


def _guard_release(m, args, _n=None):
    m.store(args[0], 1, 1)
    m.in_guard = max(0, m.in_guard - 1)
    m.events.append(("guard_release", args[0]))
    return None


def _abort(reason):
    def h(m, args, _n=None):
        raise PathAbort(reason)

    return h


def _noop(m, args, _n=None):
    return 0


def _smax(m, args, name):
    bits = int(name.rsplit("i", 1)[1])
    a, b = sext(args[0], bits), sext(args[1], bits)
    return max(a, b) & ((1 << bits) - 1)


def _smin(m, args, name):
    bits = int(name.rsplit("i", 1)[1])
    a, b = sext(args[0], bits), sext(args[1], bits)
    return min(a, b) & ((1 << bits) - 1)


def _umax(m, args, name):
    return max(args[0], args[1])


def _umin(m, args, name):
    return min(args[0], args[1])


def _abs(m, args, name):
    bits = int(name.rsplit("i", 1)[1])
    return abs(sext(args[0], bits)) & ((1 << bits) - 1)


def _ctlz(m, args, name):
    bits = int(name.rsplit("i", 1)[1])
    x = args[0]
    return bits - x.bit_length()


def _cttz(m, args, name):
    bits = int(name.rsplit("i", 1)[1])
    x = args[0]
    if x == 0:
        return bits
    return (x & -x).bit_length() - 1


def _umul_ov(m, args, name):
    bits = int(name.rsplit("i", 1)[1])
    r = args[0] * args[1]
    return [r & ((1 << bits) - 1), int(r >> bits != 0)]


def _uadd_ov(m, args, name):
    bits = int(name.rsplit("i", 1)[1])
    r = args[0] + args[1]
    return [r & ((1 << bits) - 1), int(r >> bits != 0)]


def _usub_sat(m, args, name):
    return max(0, args[0] - args[1])


def _assume(m, args, name):
    return None


def _fmuladd(m, args, name):
    bits = 32 if name.endswith("f32") else 64
    return m.fbin("fadd", m.fbin("fmul", args[0], args[1], bits), args[2], bits)


def _copysign(m, args, name=None):
    a, b = args
    if isinstance(a, float) and isinstance(b, float):
        return math.copysign(a, b)
    mag = m.fabs(a) if not isinstance(a, float) else T.Const(T.snap(abs(a)))
    b = m.lift(b)
    neg = m.decide(Cond("cmp", b, T.Const(0), "olt"))
    return T.Neg(mag) if neg else mag


def _floor(m, args, name=None):
    x = args[0]
    if isinstance(x, float):
        return float(math.floor(x))
    x = m.lift(x)
    if x.op == "const":
        return T.Const(math.floor(x.args[0]))
    raise Unsupported("floor of symbolic value")


def _strlen(m, args, name=None):
    p = args[0]
    n = 0
    while m.load_raw(p + n, 1) != 0:
        n += 1
    return n


def _memcmp(m, args, name=None):
    a, b, n = args
    for i in range(n):
        x = m.load_raw(a + i, 1)
        y = m.load_raw(b + i, 1)
        if x != y:
            return (x - y) & 0xFFFFFFFF
    return 0


INTRINSICS = {
    "memcpy": _memcpy, "memmove": _memmove, "memset": _memset,
    "fabs": _fabs, "sqrt": _math1("sqrt"), "sin": _math1("sin"), "cos": _math1("cos"),
    "exp": _math1("exp"), "log": _math1("log"), "pow": _pow, "powi": _powi,
    "minnum": _minmax("min"), "maxnum": _minmax("max"), "fmuladd": _fmuladd,
    "smax": _smax, "smin": _smin, "umax": _umax, "umin": _umin, "abs": _abs,
    "ctlz": _ctlz, "cttz": _cttz, "umul": _umul_ov, "uadd": _uadd_ov, "usub": _usub_sat,
    "assume": _assume, "trap": _abort("llvm.trap"), "copysign": _copysign, "floor": _floor,
    "lifetime": _noop, "invariant": _noop, "prefetch": _noop, "experimental": _noop, "dbg": _noop,
    "stacksave": lambda m, a, n: 0, "stackrestore": _noop, "expect": lambda m, a, n: a[0],
    "is": _noop,
}

EXTERNALS = {
    "malloc": _malloc, "_Znwm": _malloc, "_Znam": _malloc, "free": _free, "_ZdlPv": _free, "_ZdaPv": _free,
    "_ZdlPvm": _free, "_ZdaPvm": _free,
    "realloc": _realloc, "posix_memalign": _posix_memalign,
    "aligned_alloc": lambda m, a, n=None: m.malloc(a[1]),
    "calloc": lambda m, a, n=None: _calloc(m, a),
    "sqrt": _math1("sqrt"), "sin": _math1("sin"), "cos": _math1("cos"), "tan": _tan,
    "exp": _math1("exp"), "log": _math1("log"), "atan2": _atan2, "pow": _pow, "fabs": _fabs,
    "asin": _math1("asin"), "acos": _math1("acos"), "atan": _math1("atan"),
    "sqrtf": _math1f("sqrt"), "sinf": _math1f("sin"), "cosf": _math1f("cos"), "tanf": _tan,
    "expf": _math1f("exp"), "logf": _math1f("log"), "atan2f": _atan2, "powf": _pow, "fabsf": _fabs,
    "floor": _floor, "copysign": _copysign,
    "__cxa_guard_acquire": _guard_acquire, "__cxa_guard_release": _guard_release,
    "__cxa_guard_abort": _noop, "__cxa_atexit": _noop,
    "__assert_fail": _abort("__assert_fail"), "abort": _abort("abort"),
    "_ZSt9terminatev": _abort("std::terminate"),
    "__cxa_allocate_exception": lambda m, a, n=None: m.malloc(max(a[0], 8) + 128),
    "__cxa_throw": _abort("throw"), "__cxa_rethrow": _abort("rethrow"),
    "__cxa_begin_catch": _abort("catch"), "__cxa_pure_virtual": _abort("pure virtual"),
    "__cxa_throw_bad_array_new_length": _abort("bad_array_new_length"),
    "__cxa_bad_cast": _abort("bad_cast"), "__cxa_bad_typeid": _abort("bad_typeid"),
    "__clang_call_terminate": _abort("terminate"),
    "strlen": _strlen, "memcmp": _memcmp, "bcmp": _memcmp,
    "memcpy": _memcpy, "memmove": _memmove, "memset": _memset,
    "_ZNSt8ios_base4InitC1Ev": _noop, "_ZNSt8ios_base4InitD1Ev": _noop,
    "_ZNSt6chrono3_V212system_clock3nowEv": _noop, "_ZNSt6chrono3_V212steady_clock3nowEv": _noop,
}


def _eigen_cache_sizes(m, a):
    """Eigen::internal::queryCacheSizes(int& l1, int& l2, int& l3) executes CPUID through inline asm.  Environment stub: a fixed, typical
    cache hierarchy.  The sizes only choose GEMM blocking factors, never values (stated in the evidence as a stub)."""
    for p_, v in zip(a[:3], (32768, 262144, 2097152)):
        m.store(p_, 4, v)
    return None


DEFINED_STUBS = {"_ZN5Eigen8internal15queryCacheSizesERiS1_S1_": _eigen_cache_sizes}


def _calloc(m, a):
    n = a[0] * a[1]
    p = m.malloc(n)
    o, off = m.resolve(p, n, "calloc")
    m._zero(o, 0, max(n, 0))
    return p


PREFIX_EXTERNALS = [
    ("_ZSt17__throw_", _abort("std::__throw_*")),
    ("_ZSt16__throw_", _abort("std::__throw_*")),
    ("_ZSt19__throw_", _abort("std::__throw_*")),
    ("_ZSt20__throw_", _abort("std::__throw_*")),
    ("_ZSt24__throw_", _abort("std::__throw_*")),
    ("_ZSt21__throw_", _abort("std::__throw_*")),
    ("_ZSt25__throw_", _abort("std::__throw_*")),
    ("_ZSt28__throw_", _abort("std::__throw_*")),
    ("_ZN5Eigen8internal19throw_std_bad_alloc", _abort("bad_alloc")),
]
