"""Compile harness TUs from /repo's current working tree: clang-14 -> LLVM IR -> irdump JSON, and the
same TU natively with g++ -O2 (the test suite's compiler) for differential validation / replay."""
import hashlib, os, re, shutil, subprocess, sys, tempfile, atexit, glob, json, time

VERIF = os.path.dirname(os.path.dirname(os.path.abspath(__file__)))
REPO = os.environ.get("SMOOTH_REPO", "/repo")
BUILD = os.path.join(VERIF, "build")
GUARD = "PETTNI_SMOOTH_VERIF"

CLANG_FLAGS = ["-std=c++20", "-O1", "-fno-vectorize", "-fno-slp-vectorize", "-fno-unroll-loops", "-ffp-contract=off",
               "-DEIGEN_DONT_VECTORIZE", "-DNDEBUG", "-D" + GUARD, "-fno-math-errno", "-Wno-everything"]
GXX_FLAGS = ["-std=gnu++20", "-O2", "-DNDEBUG", "-D" + GUARD, "-fPIC", "-shared", "-w"]

_scratch = None


def scratch():
    global _scratch
    if _scratch is None:
        base = os.environ.get("TMPDIR", "/tmp")
        _scratch = tempfile.mkdtemp(prefix="symx.", dir=base)
        atexit.register(lambda: shutil.rmtree(_scratch, ignore_errors=True))
    return _scratch


def run(cmd, timeout=900, mem_kb=12_000_000, cwd=None):
    pre = "ulimit -v %d; " % mem_kb
    p = subprocess.run(["bash", "-c", pre + "exec " + " ".join("'%s'" % c.replace("'", "'\\''") for c in cmd)],
                       capture_output=True, text=True, timeout=timeout, cwd=cwd)
    return p.returncode, p.stdout, p.stderr


def ensure_tools():
    """build/shim, build/irdump, build/include/smooth/version.hpp (idempotent; setup_cmd runs this)."""
    os.makedirs(BUILD, exist_ok=True)
    if not os.path.exists(os.path.join(BUILD, "shim", "bits", "ranges_util.h")):
        rc, o, e = run([sys.executable, os.path.join(VERIF, "tools", "mkshim.py"), os.path.join(BUILD, "shim")])
        if rc:
            raise RuntimeError("mkshim failed: " + o + e)
    if not os.path.exists(os.path.join(BUILD, "irdump")):
        cxx = subprocess.check_output(["llvm-config-14", "--cxxflags"], text=True).split()
        cxx = [f for f in cxx if f not in ("-fno-exceptions", "-std=c++14")]
        ld = subprocess.check_output(["llvm-config-14", "--ldflags", "--libs", "core", "irreader", "support"], text=True).split()
        rc, o, e = run(["g++", "-O1", "-std=c++17", os.path.join(VERIF, "tools", "irdump.cpp"), "-o", os.path.join(BUILD, "irdump")] + cxx + ld)
        if rc:
            raise RuntimeError("irdump build failed: " + e)


def repo_includes():
    """Per-run generated include dirs: version.hpp from config/version.hpp.in and the clang-14 typename
    overlay for manifolds/submanifold.hpp (DESIGN 2.1).  Returns (gen_include_dir, overlay_dir, log)."""
    d = os.path.join(scratch(), "gen")
    if os.path.exists(d):
        return os.path.join(d, "include"), os.path.join(d, "overlay"), []
    log = []
    inc = os.path.join(d, "include", "smooth")
    os.makedirs(inc)
    src = open(os.path.join(REPO, "config", "version.hpp.in")).read()
    cm = open(os.path.join(REPO, "CMakeLists.txt")).read()
    m = re.search(r"project\(\s*smooth\s+VERSION\s+(\d+)\.(\d+)\.(\d+)", cm)
    ver = m.groups() if m else ("1", "1", "0")
    src = (src.replace("@CMAKE_PROJECT_VERSION_MAJOR@", ver[0]).replace("@CMAKE_PROJECT_VERSION_MINOR@", ver[1])
           .replace("@CMAKE_PROJECT_VERSION_PATCH@", ver[2]).replace("@CMAKE_PROJECT_VERSION@", ".".join(ver)))
    open(os.path.join(inc, "version.hpp"), "w").write(src)
    # clang-14 only: a per-run COPY of /repo/include with one mechanical rewrite (P0634 'typename') in
    # manifolds/submanifold.hpp; every other file is byte-identical, so edits to the real tree are what gets checked
    ov = os.path.join(d, "overlay")
    shutil.copytree(os.path.join(REPO, "include"), ov)
    smp = os.path.join(ov, "smooth", "manifolds", "submanifold.hpp")
    sm = open(smp).read()
    sm2, n = re.subn(r"=\s*man<M>::Scalar;", "= typename man<M>::Scalar;", sm)
    if n:
        log.append("overlay: submanifold.hpp 'man<M>::Scalar' -> 'typename man<M>::Scalar' (%d)" % n)
        open(smp, "w").write(sm2)
    return os.path.join(d, "include"), os.path.join(d, "overlay"), log


def tree_hash():
    h = hashlib.sha256()
    for root, _, files in sorted(os.walk(os.path.join(REPO, "include"))):
        for f in sorted(files):
            p = os.path.join(root, f)
            h.update(p.encode())
            h.update(open(p, "rb").read())
    for p in (os.path.join(REPO, "config", "version.hpp.in"), os.path.join(VERIF, "harness", "vh.hpp"),
              os.path.join(VERIF, "tools", "irdump.cpp")):
        h.update(open(p, "rb").read())
    for p in sorted(glob.glob(os.path.join(VERIF, "harness", "*.hpp"))):
        h.update(open(p, "rb").read())
    return h.hexdigest()


_tree = None


def cache_key(text, flags):
    global _tree
    if _tree is None:
        _tree = tree_hash()
    return hashlib.sha256((_tree + text + " ".join(flags)).encode()).hexdigest()[:24]


def include_flags(clang):
    gen, ov, log = repo_includes()
    fl = []
    if clang:
        fl += ["-isystem", os.path.join(BUILD, "shim"), "-I", ov]
    else:
        fl += ["-I", os.path.join(REPO, "include")]
    fl += ["-I", gen, "-I", os.path.join(VERIF, "harness"), "-isystem", "/usr/include/eigen3"]
    return fl, log


def compile_ir(name, text, extra=(), keep_calls=False, timeout=900):
    """TU text -> path of irdump JSON (cached by content hash of the TU and of /repo/include)."""
    ensure_tools()
    flags = CLANG_FLAGS + list(extra) + (["-fno-inline-functions"] if keep_calls else [])
    key = cache_key(text, flags)
    cdir = os.path.join(BUILD, "cache")
    os.makedirs(cdir, exist_ok=True)
    out = os.path.join(cdir, "%s-%s.json" % (name, key))
    if os.path.exists(out):
        return out
    w = scratch()
    cpp = os.path.join(w, name + ".cpp")
    ll = os.path.join(w, name + ".ll")
    open(cpp, "w").write(text)
    inc, log = include_flags(True)
    rc, o, e = run(["clang++-14"] + flags + inc + ["-S", "-emit-llvm", cpp, "-o", ll], timeout=timeout)
    if rc:
        raise RuntimeError("clang failed for %s:\n%s" % (name, e[-6000:]))
    ll2 = os.path.join(w, name + ".s.ll")
    rc, o, e = run(["opt-14", "-S", "-scalarizer", "-lowerswitch", "-enable-new-pm=0", ll, "-o", ll2])
    if rc:
        ll2 = ll
    tmp = out + ".tmp%d" % os.getpid()
    with open(tmp, "w") as f:
        p = subprocess.run([os.path.join(BUILD, "irdump"), ll2], stdout=f, stderr=subprocess.PIPE, text=True)
    if p.returncode:
        raise RuntimeError("irdump failed: " + p.stderr)
    os.replace(tmp, out)
    for x in (ll, ll2):
        try:
            os.remove(x)
        except OSError:
            pass
    return out


def compile_native(name, text, extra=(), timeout=900):
    """TU text -> shared object built with g++ -O2 (no shim, Eigen vectorisation on)."""
    flags = GXX_FLAGS + list(extra)
    key = cache_key(text, flags)
    cdir = os.path.join(BUILD, "cache")
    os.makedirs(cdir, exist_ok=True)
    out = os.path.join(cdir, "%s-%s.so" % (name, key))
    if os.path.exists(out):
        return out
    w = scratch()
    cpp = os.path.join(w, name + ".n.cpp")
    open(cpp, "w").write(text)
    inc, log = include_flags(False)
    tmp = out + ".tmp%d" % os.getpid()
    rc, o, e = run(["g++"] + flags + inc + [cpp, "-o", tmp], timeout=timeout)
    if rc:
        raise RuntimeError("g++ failed for %s:\n%s" % (name, e[-6000:]))
    os.replace(tmp, out)
    return out


def prune_cache(max_files=400):
    cdir = os.path.join(BUILD, "cache")
    fs = sorted(glob.glob(os.path.join(cdir, "*")), key=os.path.getmtime)
    for f in fs[:-max_files]:
        try:
            os.remove(f)
        except OSError:
            pass


if __name__ == "__main__":
    ensure_tools()
    print("tools ready in", BUILD)
